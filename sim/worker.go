package sim

import (
	"encoding/json"
	"fmt"
	"os"
	"path/filepath"
	"runtime/debug"
	"time"
)

// WorkerCfg is handed to an engine worker process through $VERIF_WORKER_CFG (a file path).
type WorkerCfg struct {
	Prop       string   `json:"prop"`
	Tier       string   `json:"tier"`
	MasterSeed uint64   `json:"master_seed"`
	Worker     int      `json:"worker"`
	Workers    int      `json:"workers"`
	MaxRuns    int      `json:"max_runs"` // per worker
	BudgetS    float64  `json:"budget_s"` // wall cap on effort (never influences a verdict)
	MinimiseS  float64  `json:"minimise_s"`
	Out        string   `json:"out"`
	Replay     string   `json:"replay"`
	Known      []string `json:"known"`
	ReplayDir  string   `json:"replay_dir"`
	SelfTest   bool     `json:"selftest"`
	Progress   string   `json:"progress"`   // file where the worker announces the run it is executing
	StartIter  int      `json:"start_iter"` // first iteration of this worker's stride to execute (after a node crash the slot resumes behind it)
	GenPlan    bool     `json:"gen_plan"`   // only generate the plan of iteration StartIter and write it to Out (no execution)
	EndIter    int      `json:"end_iter"`   // >0: stop before this iteration (a slot is served by several short-lived processes)
}

type FoundViolation struct {
	Violation
	Seed       uint64 `json:"seed"`
	Run        uint64 `json:"run"`
	ReplayPath string `json:"replay_path"`
	Steps      int    `json:"steps"`
	OrigSteps  int    `json:"orig_steps"`
	Count      int    `json:"count"`
}

type WorkerOut struct {
	Runs       int                        `json:"runs"`
	Steps      int64                      `json:"steps"`
	SimNanos   int64                      `json:"sim_nanos"`
	Counters   map[string]int64           `json:"counters"`
	States     []string                   `json:"states"`
	Shapes     []string                   `json:"shapes"`
	Nontrivial int                        `json:"nontrivial"`
	Violations map[string]*FoundViolation `json:"violations"`
	Samples    []json.RawMessage          `json:"samples"`
	Aborted    []string                   `json:"aborted"`
	Digests    map[string]string          `json:"digests,omitempty"`
	WallS      float64                    `json:"wall_s"`
	Replay     *ReplayOutcome             `json:"replay,omitempty"`
}

type ReplayOutcome struct {
	Reproduced  bool     `json:"reproduced"`
	SameDigest  bool     `json:"same_digest"`
	Fingerprint string   `json:"fingerprint"`
	Detail      string   `json:"detail"`
	Got         []string `json:"got"`
	Trace       []string `json:"trace,omitempty"`
	Resampled   int      `json:"resampled,omitempty"`
}

func LoadWorkerCfg() (*WorkerCfg, error) {
	p := os.Getenv("VERIF_WORKER_CFG")
	if p == "" {
		return nil, nil
	}
	b, err := os.ReadFile(p)
	if err != nil {
		return nil, err
	}
	c := &WorkerCfg{}
	if err := json.Unmarshal(b, c); err != nil {
		return nil, err
	}
	return c, nil
}

const maxStatesPerWorker = 400000

// RunWorker is the main loop of a worker process.
func RunWorker(e Engine, cfg *WorkerCfg) error {
	debug.SetGCPercent(200)
	start := time.Now()
	out := &WorkerOut{Counters: map[string]int64{}, Violations: map[string]*FoundViolation{}}
	if cfg.SelfTest {
		out.Digests = map[string]string{}
	}
	var statesRef, shapesRef *map[string]struct{}
	write := func() error {
		out.WallS = time.Since(start).Seconds()
		if statesRef != nil {
			out.States = out.States[:0]
			for s := range *statesRef {
				out.States = append(out.States, s)
			}
			out.Shapes = out.Shapes[:0]
			for s := range *shapesRef {
				out.Shapes = append(out.Shapes, s)
			}
		}
		b, err := json.Marshal(out)
		if err != nil {
			return err
		}
		tmp := cfg.Out + ".tmp"
		if err := os.WriteFile(tmp, b, 0644); err != nil {
			return err
		}
		return os.Rename(tmp, cfg.Out)
	}
	if cfg.Replay != "" {
		out.Replay = doReplay(e, cfg)
		return write()
	}
	if cfg.GenPlan {
		label := e.Name() + "/" + cfg.Prop
		runIdx := uint64(cfg.Worker + cfg.StartIter*cfg.Workers)
		seed := Derive(cfg.MasterSeed, label, runIdx)
		plan := e.Generate(cfg.Prop, NewRand(seed), cfg.Tier)
		plan.Property, plan.Engine, plan.Seed, plan.Run = cfg.Prop, e.Name(), seed, runIdx
		out.Samples = append(out.Samples, MustJSON(plan))
		return write()
	}
	known := map[string]bool{}
	for _, k := range cfg.Known {
		known[k] = true
	}
	states := map[string]struct{}{}
	shapes := map[string]struct{}{}
	statesRef, shapesRef = &states, &shapes
	label := e.Name() + "/" + cfg.Prop
	for i := cfg.StartIter; i < cfg.MaxRuns && (cfg.EndIter <= 0 || i < cfg.EndIter); i++ {
		if cfg.BudgetS > 0 && time.Since(start).Seconds() > cfg.BudgetS {
			break
		}
		runIdx := uint64(cfg.Worker + i*cfg.Workers)
		seed := Derive(cfg.MasterSeed, label, runIdx)
		if cfg.Progress != "" {
			_ = os.WriteFile(cfg.Progress, []byte(fmt.Sprintf("%d %d %d", runIdx, seed, i)), 0644)
		}
		rng := NewRand(seed)
		plan := e.Generate(cfg.Prop, rng, cfg.Tier)
		plan.Property, plan.Engine, plan.Seed, plan.Run = cfg.Prop, e.Name(), seed, runIdx
		res := e.Execute(cfg.Prop, plan, false)
		if len(res.Tape) > 0 {
			plan.Steps = res.Tape
		}
		out.Runs++
		out.Steps += int64(res.Steps)
		out.SimNanos += res.SimNanos
		for k, v := range res.Counters {
			out.Counters[k] += v
		}
		if res.Aborted != "" {
			if len(out.Aborted) < 20 {
				out.Aborted = append(out.Aborted, fmt.Sprintf("run %d seed %d: %s", runIdx, seed, res.Aborted))
			}
			out.Counters["aborted_runs"]++
			continue
		}
		if len(states) < maxStatesPerWorker {
			for s := range res.States {
				states[HashStrings(s)] = struct{}{}
			}
		}
		if res.Nontrivial {
			out.Nontrivial++
			shapes[res.Shape] = struct{}{}
		}
		if cfg.SelfTest {
			out.Digests[fmt.Sprint(runIdx)] = res.Log.Digest()
		}
		if len(out.Samples) < 2 && (res.Nontrivial || i > 3) {
			sp := plan.Clone()
			if len(sp.Steps) > 40 {
				sp.Steps = sp.Steps[:40]
			}
			out.Samples = append(out.Samples, MustJSON(sp))
		}
		for _, v := range res.Violations {
			fv, seen := out.Violations[v.Fingerprint]
			if seen {
				fv.Count++
				continue
			}
			fv = &FoundViolation{Violation: v, Seed: seed, Run: runIdx, Count: 1, OrigSteps: len(plan.Steps), Steps: len(plan.Steps)}
			out.Violations[v.Fingerprint] = fv
			if known[v.Fingerprint] || known["*"] {
				continue
			}
			// new violation: minimise and write the replay file
			min, execs := Minimise(e, cfg.Prop, plan, v.Fingerprint, time.Duration(cfg.MinimiseS*float64(time.Second)))
			mres := e.Execute(cfg.Prop, min, false)
			detail := v.Detail
			for _, mv := range mres.Violations {
				if mv.Fingerprint == v.Fingerprint {
					detail = mv.Detail
				}
			}
			rf := &ReplayFile{Property: cfg.Prop, Engine: e.Name(), Fingerprint: v.Fingerprint, Oracle: v.Oracle,
				Detail: detail, LogSHA256: mres.Log.Digest(), Replay: "exact", MinimisedFromSteps: len(plan.Steps),
				MinimiseExecs: execs, Plan: min, Original: plan}
			_ = os.MkdirAll(cfg.ReplayDir, 0755)
			path := filepath.Join(cfg.ReplayDir, fmt.Sprintf("%s-%d.json", SanitizeFP(v.Fingerprint), seed))
			b, _ := json.MarshalIndent(rf, "", " ")
			if err := os.WriteFile(path, b, 0644); err == nil {
				fv.ReplayPath = path
			}
			fv.Steps = len(min.Steps)
			fv.Detail = detail
			_ = write()
		}
		if i%8 == 7 {
			_ = write()
		}
	}
	return write()
}

func doReplay(e Engine, cfg *WorkerCfg) *ReplayOutcome {
	o := &ReplayOutcome{}
	b, err := os.ReadFile(cfg.Replay)
	if err != nil {
		o.Detail = "cannot read replay file: " + err.Error()
		return o
	}
	rf := &ReplayFile{}
	if err := json.Unmarshal(b, rf); err != nil || rf.Plan == nil {
		o.Detail = fmt.Sprintf("bad replay file: %v", err)
		return o
	}
	o.Fingerprint = rf.Fingerprint
	res := e.Execute(rf.Property, rf.Plan, true)
	// divergences that depend on Go's native map order or goroutine scheduling are re-sampled:
	// the same plan is executed again until two replicas differ (see DESIGN.md, replay "resampled")
	if rs, ok := e.(interface{ Resamples(prop string) int }); ok {
		for i := 0; i < rs.Resamples(rf.Property) && res.Aborted == "" && !res.HasFingerprint(rf.Fingerprint); i++ {
			res = e.Execute(rf.Property, rf.Plan, true)
			o.Resampled = i + 1
		}
	}
	if res.Aborted != "" {
		o.Detail = "aborted: " + res.Aborted
		return o
	}
	for _, v := range res.Violations {
		o.Got = append(o.Got, v.Fingerprint)
		if v.Fingerprint == rf.Fingerprint {
			o.Reproduced = true
			o.Detail = v.Detail
		}
	}
	o.SameDigest = res.Log.Digest() == rf.LogSHA256
	tr := res.Log.Lines
	if len(tr) > 4000 {
		tr = tr[len(tr)-4000:]
	}
	o.Trace = tr
	return o
}
