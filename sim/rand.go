// Package sim is the shared core of the deterministic simulator: PRNG, simulated
// KV store / disk, plans, violations, minimiser, evidence and worker loop.
package sim

import (
	"encoding/binary"
	"hash/fnv"
)

// Rand is a small, fully deterministic PRNG (splitmix64 seeded xoshiro256**).
// Every choice of a run is drawn from exactly one Rand seeded from the run seed.
type Rand struct {
	s     [4]uint64
	Draws uint64
}

func splitmix(x *uint64) uint64 {
	*x += 0x9e3779b97f4a7c15
	z := *x
	z = (z ^ (z >> 30)) * 0xbf58476d1ce4e5b9
	z = (z ^ (z >> 27)) * 0x94d049bb133111eb
	return z ^ (z >> 31)
}

func NewRand(seed uint64) *Rand {
	r := &Rand{}
	x := seed
	for i := range r.s {
		r.s[i] = splitmix(&x)
	}
	return r
}

// Derive computes the seed of run i of an engine/property from the master seed.
func Derive(master uint64, label string, i uint64) uint64 {
	h := fnv.New64a()
	var b [8]byte
	binary.LittleEndian.PutUint64(b[:], master)
	h.Write(b[:])
	h.Write([]byte(label))
	binary.LittleEndian.PutUint64(b[:], i)
	h.Write(b[:])
	x := h.Sum64()
	return splitmix(&x)
}

func rotl(x uint64, k uint) uint64 { return (x << k) | (x >> (64 - k)) }

func (r *Rand) Uint64() uint64 {
	r.Draws++
	res := rotl(r.s[1]*5, 7) * 9
	t := r.s[1] << 17
	r.s[2] ^= r.s[0]
	r.s[3] ^= r.s[1]
	r.s[1] ^= r.s[2]
	r.s[0] ^= r.s[3]
	r.s[2] ^= t
	r.s[3] = rotl(r.s[3], 45)
	return res
}

// Intn returns a value in [0,n). n<=0 returns 0.
func (r *Rand) Intn(n int) int {
	if n <= 1 {
		if n == 1 {
			r.Uint64()
		}
		return 0
	}
	return int(r.Uint64() % uint64(n))
}

// Range returns a value in [lo,hi].
func (r *Rand) Range(lo, hi int) int {
	if hi <= lo {
		return lo
	}
	return lo + r.Intn(hi-lo+1)
}

func (r *Rand) Float() float64 { return float64(r.Uint64()>>11) / float64(1<<53) }

// Chance returns true with probability p.
func (r *Rand) Chance(p float64) bool { return r.Float() < p }

func (r *Rand) Perm(n int) []int {
	p := make([]int, n)
	for i := range p {
		p[i] = i
	}
	for i := n - 1; i > 0; i-- {
		j := r.Intn(i + 1)
		p[i], p[j] = p[j], p[i]
	}
	return p
}

func (r *Rand) Bytes(n int) []byte {
	b := make([]byte, n)
	for i := range b {
		b[i] = byte(r.Uint64())
	}
	return b
}

// Weighted picks an index proportionally to weights.
func (r *Rand) Weighted(w []int) int {
	t := 0
	for _, x := range w {
		t += x
	}
	if t <= 0 {
		return 0
	}
	k := r.Intn(t)
	for i, x := range w {
		if k < x {
			return i
		}
		k -= x
	}
	return len(w) - 1
}
