package sim

import (
	"bytes"
	"crypto/sha256"
	"encoding/hex"
	"sort"
	"sync"

	"github.com/meshplus/bitxhub-kit/storage"
)

// KVOp is one durable mutation.
type KVOp struct {
	Del bool
	K   string
	V   []byte
}

// KVBatch is one atomic durable write (a committed batch or a direct Put/Delete).
type KVBatch struct {
	Ops []KVOp
}

// SimKV is the simulated key-value disk: an ordered in-memory store implementing
// bitxhub-kit's storage.Storage with goleveldb's observable semantics (values are
// copied, an empty value reads back as non-nil empty slice, iteration in key order).
// Every atomic durable write is appended to Log while recording is on, so a crash
// image is "base + any subset/prefix of Log".
type SimKV struct {
	mu     sync.Mutex
	m      map[string][]byte
	sorted []string // cache of sorted keys; nil when stale
	Rec    bool
	Log    []KVBatch
	Closes int
	// Blackhole: when set, writes are silently discarded (a dead incarnation).
	Blackhole bool
	// Reads counts Get/Has/iterator creations, a cheap reach probe for "went to disk".
	Reads uint64
	// slow-disk fault: while stalled, every write blocks (reads go on) until Release
	gateMu  sync.Mutex
	gate    chan struct{}
	waiting int
}

// Stall makes every subsequent write block until Release (a slow or stalled disk).
func (s *SimKV) Stall() {
	s.gateMu.Lock()
	if s.gate == nil {
		s.gate = make(chan struct{})
	}
	s.gateMu.Unlock()
}

// Release lets the blocked writes through.
func (s *SimKV) Release() {
	s.gateMu.Lock()
	if s.gate != nil {
		close(s.gate)
		s.gate = nil
	}
	s.gateMu.Unlock()
}

// StalledWriters is the number of writers currently blocked by Stall.
func (s *SimKV) StalledWriters() int {
	s.gateMu.Lock()
	defer s.gateMu.Unlock()
	return s.waiting
}

func (s *SimKV) passGate() {
	s.gateMu.Lock()
	g := s.gate
	if g == nil {
		s.gateMu.Unlock()
		return
	}
	s.waiting++
	s.gateMu.Unlock()
	<-g
	s.gateMu.Lock()
	s.waiting--
	s.gateMu.Unlock()
}

var _ storage.Storage = (*SimKV)(nil)

func NewSimKV() *SimKV { return &SimKV{m: map[string][]byte{}} }

func cp(b []byte) []byte {
	c := make([]byte, len(b))
	copy(c, b)
	return c
}

func (s *SimKV) apply(b KVBatch) {
	for _, op := range b.Ops {
		if op.Del {
			if _, ok := s.m[op.K]; ok {
				delete(s.m, op.K)
				s.sorted = nil
			}
		} else {
			if _, ok := s.m[op.K]; !ok {
				s.sorted = nil
			}
			s.m[op.K] = op.V
		}
	}
}

func (s *SimKV) write(b KVBatch) {
	s.passGate()
	s.mu.Lock()
	defer s.mu.Unlock()
	if s.Blackhole {
		return
	}
	s.apply(b)
	if s.Rec {
		s.Log = append(s.Log, b)
	}
}

// ApplyBatch applies a recorded batch (used to build crash images).
func (s *SimKV) ApplyBatch(b KVBatch) {
	s.mu.Lock()
	defer s.mu.Unlock()
	s.apply(b)
}

func (s *SimKV) Put(key, value []byte) {
	s.write(KVBatch{Ops: []KVOp{{K: string(key), V: cp(value)}}})
}

func (s *SimKV) Delete(key []byte) {
	s.write(KVBatch{Ops: []KVOp{{Del: true, K: string(key)}}})
}

func (s *SimKV) Get(key []byte) []byte {
	s.mu.Lock()
	defer s.mu.Unlock()
	s.Reads++
	v, ok := s.m[string(key)]
	if !ok {
		return nil
	}
	return cp(v)
}

func (s *SimKV) Has(key []byte) bool { return s.Get(key) != nil }

func (s *SimKV) keys() []string {
	if s.sorted == nil {
		ks := make([]string, 0, len(s.m))
		for k := range s.m {
			ks = append(ks, k)
		}
		sort.Strings(ks)
		s.sorted = ks
	}
	return s.sorted
}

type kvIter struct {
	ks  []string
	vs  [][]byte
	pos int // -1 before first, len after last
}

func (s *SimKV) rangeIter(start, end []byte) storage.Iterator {
	s.mu.Lock()
	defer s.mu.Unlock()
	s.Reads++
	all := s.keys()
	lo := 0
	if start != nil {
		lo = sort.SearchStrings(all, string(start))
	}
	hi := len(all)
	if end != nil {
		hi = sort.SearchStrings(all, string(end))
	}
	if hi < lo {
		hi = lo
	}
	it := &kvIter{pos: -1}
	it.ks = append(it.ks, all[lo:hi]...) // snapshot semantics like leveldb
	it.vs = make([][]byte, len(it.ks))
	for i, k := range it.ks {
		it.vs[i] = cp(s.m[k])
	}
	return it
}

func (s *SimKV) Iterator(start, end []byte) storage.Iterator { return s.rangeIter(start, end) }

func (s *SimKV) Prefix(prefix []byte) storage.Iterator {
	var limit []byte
	for i := len(prefix) - 1; i >= 0; i-- {
		if prefix[i] < 0xff {
			limit = make([]byte, i+1)
			copy(limit, prefix)
			limit[i]++
			break
		}
	}
	return s.rangeIter(prefix, limit)
}

func (it *kvIter) Next() bool {
	if it.pos < len(it.ks) {
		it.pos++
	}
	return it.pos < len(it.ks)
}
func (it *kvIter) Prev() bool {
	if it.pos >= 0 {
		it.pos--
	}
	return it.pos >= 0
}
func (it *kvIter) Seek(key []byte) bool {
	it.pos = sort.SearchStrings(it.ks, string(key))
	return it.pos < len(it.ks)
}
func (it *kvIter) Key() []byte {
	if it.pos < 0 || it.pos >= len(it.ks) {
		return nil
	}
	return []byte(it.ks[it.pos])
}
func (it *kvIter) Value() []byte {
	if it.pos < 0 || it.pos >= len(it.ks) {
		return nil
	}
	return it.vs[it.pos]
}

type kvBatch struct {
	s *SimKV
	b KVBatch
}

func (s *SimKV) NewBatch() storage.Batch { return &kvBatch{s: s} }
func (b *kvBatch) Put(key, value []byte) {
	b.b.Ops = append(b.b.Ops, KVOp{K: string(key), V: cp(value)})
}
func (b *kvBatch) Delete(key []byte) { b.b.Ops = append(b.b.Ops, KVOp{Del: true, K: string(key)}) }
func (b *kvBatch) Commit() {
	// leveldb.Write consumes the batch but the batch object stays usable; bitxhub never reuses one.
	b.s.write(KVBatch{Ops: append([]KVOp(nil), b.b.Ops...)})
}

func (s *SimKV) Close() error {
	s.mu.Lock()
	s.Closes++
	s.mu.Unlock()
	return nil
}
func (s *SimKV) GetStats() (interface{}, error) { return nil, nil }

// Clone returns an independent copy of the durable content (no log).
func (s *SimKV) Clone() *SimKV {
	s.mu.Lock()
	defer s.mu.Unlock()
	c := NewSimKV()
	for k, v := range s.m {
		c.m[k] = v // values are immutable once stored
	}
	return c
}

// StartRecording clears the log and turns recording on.
func (s *SimKV) StartRecording() {
	s.mu.Lock()
	s.Log = nil
	s.Rec = true
	s.mu.Unlock()
}

// StopRecording turns recording off and returns the log.
func (s *SimKV) StopRecording() []KVBatch {
	s.mu.Lock()
	defer s.mu.Unlock()
	s.Rec = false
	l := s.Log
	s.Log = nil
	return l
}

// Dump returns all pairs in key order; skip filters keys out.
func (s *SimKV) Dump(skip func(k string) bool) [][2]string {
	s.mu.Lock()
	defer s.mu.Unlock()
	var out [][2]string
	for _, k := range s.keys() {
		if skip != nil && skip(k) {
			continue
		}
		out = append(out, [2]string{k, string(s.m[k])})
	}
	return out
}

// Digest is a SHA-256 over Dump.
func (s *SimKV) Digest(skip func(k string) bool) string {
	h := sha256.New()
	for _, kv := range s.Dump(skip) {
		var l [8]byte
		putLen(l[:], len(kv[0]), len(kv[1]))
		h.Write(l[:])
		h.Write([]byte(kv[0]))
		h.Write([]byte(kv[1]))
	}
	return hex.EncodeToString(h.Sum(nil))
}

func putLen(b []byte, a, c int) {
	b[0], b[1], b[2], b[3] = byte(a>>24), byte(a>>16), byte(a>>8), byte(a)
	b[4], b[5], b[6], b[7] = byte(c>>24), byte(c>>16), byte(c>>8), byte(c)
}

// Len returns the number of keys.
func (s *SimKV) Len() int {
	s.mu.Lock()
	defer s.mu.Unlock()
	return len(s.m)
}

// DiffDumps lists keys whose values differ between two dumps ("k: a -> b").
func DiffDumps(a, b [][2]string) []string {
	am := map[string]string{}
	for _, kv := range a {
		am[kv[0]] = kv[1]
	}
	bm := map[string]string{}
	for _, kv := range b {
		bm[kv[0]] = kv[1]
	}
	var ks []string
	for k, v := range am {
		if w, ok := bm[k]; !ok || w != v {
			ks = append(ks, k)
		}
	}
	for k := range bm {
		if _, ok := am[k]; !ok {
			ks = append(ks, k)
		}
	}
	sort.Strings(ks)
	return ks
}

// HasPrefixBytes is a helper for dump filters.
func HasPrefixBytes(k string, p string) bool { return bytes.HasPrefix([]byte(k), []byte(p)) }
