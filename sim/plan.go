package sim

import (
	"crypto/sha256"
	"encoding/hex"
	"encoding/json"
	"fmt"
	"hash"
	"sort"
	"strings"
	"time"
)

// Plan is the explicit, self-describing description of one simulated run: the
// configuration knobs and the list of steps (workload operations and faults, or a
// choice tape). Executing a plan is a pure function of the plan and the code.
type Plan struct {
	Property string            `json:"property"`
	Engine   string            `json:"engine"`
	Seed     uint64            `json:"seed"`
	Run      uint64            `json:"run"`
	Config   json.RawMessage   `json:"config"`
	Steps    []json.RawMessage `json:"steps"`
}

func (p *Plan) Clone() *Plan {
	c := *p
	c.Steps = append([]json.RawMessage(nil), p.Steps...)
	return &c
}

// Violation is one oracle failure.
type Violation struct {
	Property    string `json:"property"`
	Oracle      string `json:"oracle"`
	Fingerprint string `json:"fingerprint"`
	Detail      string `json:"detail"`
	Step        int    `json:"step"`
}

// Result of executing one plan.
type Result struct {
	Violations []Violation
	Log        *EventLog
	Counters   map[string]int64    // fault-fired counters and reach probes
	States     map[string]struct{} // abstract states reached (engine-defined measure)
	SimNanos   int64               // simulated time covered
	Steps      int                 // steps/events actually executed
	Nontrivial bool                // by the engine's stated rule
	Shape      string              // shape hash of the executed case (for distinct counting)
	Aborted    string              // harness trouble (never a verdict)
	Tape       []json.RawMessage   // for lazily drawn plans: the recorded steps
}

func NewResult() *Result {
	return &Result{Log: NewEventLog(), Counters: map[string]int64{}, States: map[string]struct{}{}}
}

func (r *Result) Count(k string)        { r.Counters[k]++ }
func (r *Result) Add(k string, n int64) { r.Counters[k] += n }
func (r *Result) State(parts ...any)    { r.States[fmt.Sprint(parts...)] = struct{}{} }
func (r *Result) HasFingerprint(fp string) bool {
	for _, v := range r.Violations {
		if v.Fingerprint == fp {
			return true
		}
	}
	return false
}

// Violate records a violation; fingerprints are property/oracle/discriminators,
// never seeds, heights or other run-specific values.
func (r *Result) Violate(prop, oracle string, step int, discr string, detailf string, a ...any) {
	fp := prop + "/" + oracle
	if discr != "" {
		fp += "/" + discr
	}
	for _, v := range r.Violations {
		if v.Fingerprint == fp {
			return // one per fingerprint per run
		}
	}
	d := fmt.Sprintf(detailf, a...)
	if len(d) > 2000 {
		d = d[:2000] + "…"
	}
	r.Violations = append(r.Violations, Violation{Property: prop, Oracle: oracle, Fingerprint: fp, Detail: d, Step: step})
	r.Log.Logf("VIOLATION %s step=%d", fp, step)
}

// EventLog is the run's event log: only its digest is kept unless Keep is set.
// Logging never draws from the PRNG nor reads a clock.
type EventLog struct {
	h     hash.Hash
	N     int
	Keep  bool
	Lines []string
}

func NewEventLog() *EventLog { return &EventLog{h: sha256.New()} }

func (l *EventLog) Logf(f string, a ...any) {
	s := fmt.Sprintf(f, a...)
	l.h.Write([]byte(s))
	l.h.Write([]byte{'\n'})
	l.N++
	if l.Keep {
		l.Lines = append(l.Lines, s)
	}
}

func (l *EventLog) Digest() string { return hex.EncodeToString(l.h.Sum(nil)) }

// Engine is implemented by each of the four simulators.
type Engine interface {
	Name() string
	// Generate draws the plan of one run from r (and nothing else).
	Generate(prop string, r *Rand, tier string) *Plan
	// Execute interprets the plan against the real code. keepLog asks for a full trace.
	Execute(prop string, p *Plan, keepLog bool) *Result
	// SimplifyStep returns simpler variants of one step (may be nil).
	SimplifyStep(prop string, step json.RawMessage) []json.RawMessage
	// SimplifyConfig returns simpler variants of a config (may be nil).
	SimplifyConfig(prop string, cfg json.RawMessage) []json.RawMessage
}

// Minimise shrinks plan p while Execute still yields fingerprint fp.
// Returns the minimised plan and the number of executions spent.
func Minimise(e Engine, prop string, p *Plan, fp string, budget time.Duration) (*Plan, int) {
	deadline := time.Now().Add(budget) // wall clock only bounds effort; it never influences a verdict
	execs := 0
	still := func(c *Plan) bool {
		execs++
		r := e.Execute(prop, c, false)
		return r.Aborted == "" && r.HasFingerprint(fp)
	}
	cur := p.Clone()
	// 1. ddmin over steps
	n := 2
	for len(cur.Steps) >= 1 && time.Now().Before(deadline) {
		chunk := (len(cur.Steps) + n - 1) / n
		if chunk < 1 {
			chunk = 1
		}
		reduced := false
		for start := 0; start < len(cur.Steps) && time.Now().Before(deadline); start += chunk {
			end := start + chunk
			if end > len(cur.Steps) {
				end = len(cur.Steps)
			}
			c := cur.Clone()
			c.Steps = append(append([]json.RawMessage(nil), cur.Steps[:start]...), cur.Steps[end:]...)
			if still(c) {
				cur = c
				reduced = true
				if n > 2 {
					n--
				}
				break
			}
		}
		if !reduced {
			if chunk == 1 {
				break
			}
			n *= 2
			if n > len(cur.Steps) {
				n = len(cur.Steps)
			}
		}
	}
	// 2. config simplification (greedy, repeated)
	for changed := true; changed && time.Now().Before(deadline); {
		changed = false
		for _, cfg := range e.SimplifyConfig(prop, cur.Config) {
			c := cur.Clone()
			c.Config = cfg
			if still(c) {
				cur = c
				changed = true
				break
			}
		}
	}
	// 3. per-step simplification
	for i := 0; i < len(cur.Steps) && time.Now().Before(deadline); i++ {
		for changed := true; changed && time.Now().Before(deadline); {
			changed = false
			for _, s := range e.SimplifyStep(prop, cur.Steps[i]) {
				c := cur.Clone()
				c.Steps[i] = s
				if still(c) {
					cur = c
					changed = true
					break
				}
			}
		}
	}
	// 4. one more single-step removal pass (simplified steps may have become removable)
	for i := len(cur.Steps) - 1; i >= 0 && time.Now().Before(deadline); i-- {
		c := cur.Clone()
		c.Steps = append(append([]json.RawMessage(nil), cur.Steps[:i]...), cur.Steps[i+1:]...)
		if still(c) {
			cur = c
		}
	}
	return cur, execs
}

// ReplayFile is what gets written for a violation.
type ReplayFile struct {
	Property           string `json:"property"`
	Engine             string `json:"engine"`
	Fingerprint        string `json:"fingerprint"`
	Oracle             string `json:"oracle"`
	Detail             string `json:"detail"`
	LogSHA256          string `json:"log_sha256"`
	Replay             string `json:"replay"` // "exact" | "resampled"
	MinimisedFromSteps int    `json:"minimised_from_steps"`
	MinimiseExecs      int    `json:"minimise_execs"`
	Plan               *Plan  `json:"plan"`
	Original           *Plan  `json:"original,omitempty"`
}

func SanitizeFP(fp string) string {
	var b strings.Builder
	for _, c := range fp {
		switch {
		case c >= 'a' && c <= 'z', c >= 'A' && c <= 'Z', c >= '0' && c <= '9', c == '-', c == '_', c == '.':
			b.WriteRune(c)
		default:
			b.WriteByte('_')
		}
	}
	s := b.String()
	if len(s) > 100 {
		// keep names short but unique
		h := sha256.Sum256([]byte(fp))
		s = s[:100] + "-" + hex.EncodeToString(h[:4])
	}
	return s
}

// MustJSON marshals or panics (plans are built from plain structs).
func MustJSON(v any) json.RawMessage {
	b, err := json.Marshal(v)
	if err != nil {
		panic(err)
	}
	return b
}

func SortedKeys[V any](m map[string]V) []string {
	ks := make([]string, 0, len(m))
	for k := range m {
		ks = append(ks, k)
	}
	sort.Strings(ks)
	return ks
}

func HashStrings(ss ...string) string {
	h := sha256.New()
	for _, s := range ss {
		h.Write([]byte(s))
		h.Write([]byte{0})
	}
	return hex.EncodeToString(h.Sum(nil))[:16]
}
