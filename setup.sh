#!/bin/bash
# Builds the controller and warms the Go build cache for the engines (offline, files on disk only).
set -e
cd /verif
export GOFLAGS=-mod=mod GOPROXY=off GOSUMDB=off GOTOOLCHAIN=local
cp /repo/go.sum go.sum
mkdir -p bin evidence
go1.26.8 build -o bin/verifctl ./cmd/verifctl
for e in engines/*/; do
  go1.26.8 test -c -tags verif -ldflags=-checklinkname=0 -o /dev/null ./$e 2>/dev/null || true
done
echo setup ok
