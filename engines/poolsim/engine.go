package poolsim

import (
	"encoding/json"
	"testing"

	"github.com/meshplus/bitxhub/verif/sim"
)

type Engine struct{ T *testing.T }

func (Engine) Name() string { return "poolsim" }
func (Engine) Generate(prop string, r *sim.Rand, tier string) *sim.Plan {
	return Generate(prop, r, tier)
}
func (e Engine) Execute(prop string, p *sim.Plan, keep bool) *sim.Result {
	return Execute(e.T, prop, p, keep)
}
func (Engine) SimplifyStep(prop string, s json.RawMessage) []json.RawMessage { return SimplifyStep(s) }
func (Engine) SimplifyConfig(prop string, c json.RawMessage) []json.RawMessage {
	return SimplifyConfig(c)
}
