// Package poolsim drives the real pkg/order/mempool under a fake clock (testing/synctest bubble)
// with seeded operation/fault sequences and checks C18 (batch stream safety) and C19
// (conservation and reporting) against a reference model.
package poolsim

import (
	"encoding/json"
	"fmt"
	"io"
	"sort"
	"testing"
	"testing/synctest"
	"time"

	"github.com/meshplus/bitxhub-kit/types"
	"github.com/meshplus/bitxhub-model/pb"
	raftproto "github.com/meshplus/bitxhub/pkg/order/etcdraft/proto"
	"github.com/meshplus/bitxhub/pkg/order/mempool"
	"github.com/meshplus/bitxhub/verif/sim"
	"github.com/sirupsen/logrus"
)

var quietLogger = func() logrus.FieldLogger {
	l := logrus.New()
	l.SetOutput(io.Discard)
	l.SetLevel(logrus.PanicLevel)
	return l
}()

var accts = func() []*types.Address {
	var a []*types.Address
	for i := 0; i < 5; i++ {
		b := make([]byte, 20)
		b[0] = 0xB0 + byte(i)
		b[19] = byte(i + 1)
		a = append(a, types.NewAddress(b))
	}
	return a
}()

type PConfig struct {
	Accounts   int  `json:"accounts"`
	BatchSize  int  `json:"batch_size"`
	PoolSize   int  `json:"pool_size"`
	Timed      bool `json:"timed"`
	Foreign    bool `json:"foreign"` // blocks with transactions this pool never received may be committed
	StartNonce int  `json:"start_nonce"`
}

type PTx struct {
	A   int   `json:"a"`
	Off int   `json:"off"` // nonce = model.nextSubmit[a] + off
	V   int   `json:"v"`   // variant: distinguishes conflicting txs of equal (account, nonce)
	TS  int64 `json:"ts"`  // client timestamp offset in ms relative to the fake clock
}

type PStep struct {
	Op     string `json:"op"`
	Txs    []PTx  `json:"txs,omitempty"`
	Leader bool   `json:"leader,omitempty"`
	Local  bool   `json:"local,omitempty"`
	K      int    `json:"k,omitempty"`
	Mode   string `json:"mode,omitempty"`
	D      int    `json:"d,omitempty"` // milliseconds
}

func Generate(prop string, r *sim.Rand, tier string) *sim.Plan {
	cfg := PConfig{Accounts: r.Range(1, 4), BatchSize: r.Range(1, 8), Timed: r.Chance(0.2), Foreign: r.Chance(0.25), StartNonce: []int{0, 0, 1, 7}[r.Intn(4)]}
	if r.Chance(0.3) {
		cfg.PoolSize = r.Range(2, 12)
	}
	n := r.Range(5, 60)
	if tier == "thorough" {
		n = r.Range(5, 160)
	}
	ops := []string{"submit", "gen", "commit", "seq", "tick", "rebroadcast", "evict", "restart", "racequery"}
	w := []int{20, 8, 10, 1, 4, 2, 3, 1, 2}
	for i := range w {
		if i > 2 && r.Chance(0.3) {
			w[i] = 0
		}
	}
	p := &sim.Plan{Config: sim.MustJSON(cfg)}
	for i := 0; i < n; i++ {
		s := PStep{Op: ops[r.Weighted(w)]}
		switch s.Op {
		case "submit":
			k := 1
			if r.Chance(0.4) {
				k = r.Range(2, 5)
			}
			for j := 0; j < k; j++ {
				t := PTx{A: r.Intn(cfg.Accounts), TS: int64(r.Range(-50, 50))}
				switch r.Weighted([]int{12, 3, 2, 2, 1}) {
				case 0:
					t.Off = 0
				case 1:
					t.Off = r.Range(1, 3) // gap
				case 2:
					t.Off = -1 // duplicate / conflicting with the last submitted one
					t.V = r.Intn(2)
				case 3:
					t.Off = -r.Range(2, 4) // stale or conflicting
					t.V = r.Intn(2)
				case 4:
					t.Off = 0
					t.V = 1
				}
				s.Txs = append(s.Txs, t)
			}
			s.Leader = r.Chance(0.7)
			s.Local = r.Chance(0.6)
		case "commit":
			s.K = r.Intn(4)
			s.Mode = []string{"full", "full", "full", "full", "dup", "partial", "foreign", "peerblocks"}[r.Intn(8)]
			if s.Mode == "foreign" && cfg.Foreign && s.K%2 == 1 {
				s.Mode = "gapblock"
			}
			if s.Mode == "foreign" && !cfg.Foreign {
				s.Mode = "full"
			}
		case "tick", "rebroadcast", "evict":
			s.D = []int{1, 10, 100, 1000, 5000}[r.Intn(5)]
		case "racequery":
			s.K, s.D = r.Intn(cfg.Accounts), r.Intn(3)
		}
		p.Steps = append(p.Steps, sim.MustJSON(s))
	}
	return p
}

// ---------------------------------------------------------------------------------------------
// reference model

type mtx struct {
	hash    string
	a       int
	n       uint64
	status  string // held | committed | superseded | evicted | dropped
	arrived time.Time
	batched bool
	tx      pb.Transaction
}

type mbatch struct {
	height    uint64
	txs       []*mtx
	all       []*mtx
	done      bool
	committed bool // every transaction of the batch was committed in the model ledger
}

type pmodel struct {
	ledgerNonce []uint64          // truth
	nextSubmit  []uint64          // highest submitted nonce + 1 per account
	byHash      map[string]*mtx   // every admitted tx of the current pool incarnation
	present     []map[uint64]*mtx // (a,n) -> tx currently expected to be held
	nextBatch   []uint64          // next nonce the pool may batch per account
	foreignHit  []bool            // account had a foreign commit during this incarnation
	batches     []*mbatch
	lastHeight  uint64
	committedH  uint64
}

func newPModel(cfg PConfig) *pmodel {
	m := &pmodel{byHash: map[string]*mtx{}}
	for i := 0; i < cfg.Accounts; i++ {
		m.ledgerNonce = append(m.ledgerNonce, uint64(cfg.StartNonce))
		m.nextSubmit = append(m.nextSubmit, uint64(cfg.StartNonce))
		m.nextBatch = append(m.nextBatch, uint64(cfg.StartNonce))
		m.present = append(m.present, map[uint64]*mtx{})
		m.foreignHit = append(m.foreignHit, false)
	}
	return m
}

func mkTx(a int, n uint64, v int, ts int64) pb.Transaction {
	tx := &pb.BxhTransaction{From: accts[a], To: accts[(a+1)%len(accts)], Nonce: n, Timestamp: ts, Payload: []byte(fmt.Sprintf("v%d", v))}
	tx.TransactionHash = tx.Hash()
	return tx
}

func acctIndex(addr string) int {
	for i, a := range accts {
		if a.String() == addr {
			return i
		}
	}
	return -1
}

type runner struct {
	prop string
	res  *sim.Result
	cfg  PConfig
	m    *pmodel
	pool mempool.MemPool
	// concurrent API query parked inside the ledger lookup (race.go)
	park      chan struct{}
	queryDone chan struct{}
	parkAcct  int
	parkHold  int
	parkedIn  bool
	parkInner mempool.MemPool
	step      int
}

func (r *runner) newPool() {
	r.releaseQuery()
	inner := mempool.NewMemPool(&mempool.Config{
		ID: 1, BatchSize: uint64(r.cfg.BatchSize), PoolSize: uint64(r.cfg.PoolSize), IsTimed: r.cfg.Timed,
		ChainHeight: r.m.committedH, Logger: quietLogger,
		GetAccountNonce: func(address *types.Address) uint64 {
			i := acctIndex(address.String())
			if i < 0 || i >= len(r.m.ledgerNonce) {
				return 0
			}
			v := r.m.ledgerNonce[i]
			if r.park != nil && i == r.parkAcct && !r.parkedIn && r.parkInner != nil && !mempool.VerifNonceLocksFree(r.parkInner) {
				r.res.Count("probe_concurrent_query_not_interleavable_pool_holds_its_locks_across_the_ledger_lookup")
			}
			if ch := r.park; ch != nil && i == r.parkAcct && !r.parkedIn && r.parkInner != nil && mempool.VerifNonceLocksFree(r.parkInner) {
				// the concurrent query has read the ledger and is descheduled before it uses the value
				r.parkedIn = true
				<-ch
			}
			return v
		},
	})
	r.pool = &guardedPool{r: r, inner: inner}
	r.parkInner = inner
	r.m.lastHeight = r.m.committedH
}

func (r *runner) vio(prop, oracle, discr, f string, a ...any) {
	if prop != r.prop {
		return
	}
	if discr == "after-commit-of-unseen-tx" {
		// one root-cause family: the pool caches an account's committed nonce and only advances it by
		// commits of transactions it knows by hash, so after a block containing a transaction it never
		// received its view of the account is stale; whatever oracle notices it first, it is this.
		f = "[" + oracle + "] " + f
		oracle, discr = "stale-committed-nonce", "after-commit-of-unseen-tx"
	}
	r.res.Violate(prop, oracle, r.step, discr, f, a...)
}

// checkBatch applies the C18 batch-stream oracle to a batch returned by the pool.
func (r *runner) checkBatch(b *raftproto.RequestBatch, via string) {
	if b == nil {
		return
	}
	m := r.m
	r.res.Count("batches")
	txs := b.TxList.Transactions
	r.res.Log.Logf("  batch via %s height=%d txs=%d", via, b.Height, len(txs))
	if len(txs) > r.cfg.BatchSize {
		r.vio("C18", "batch-size", "", "batch of %d transactions exceeds the configured size %d", len(txs), r.cfg.BatchSize)
	}
	if b.Height != m.lastHeight+1 {
		r.vio("C18", "batch-height", "", "batch height %d after %d (no reset in between)", b.Height, m.lastHeight)
	}
	m.lastHeight = b.Height
	mb := &mbatch{height: b.Height}
	for _, tx := range txs {
		if tx == nil {
			r.vio("C18", "nil-tx-in-batch", "", "batch %d contains a nil transaction", b.Height)
			continue
		}
		a := acctIndex(tx.GetFrom().String())
		n := tx.GetNonce()
		h := tx.GetHash().String()
		r.res.Log.Logf("    tx A%d n=%d %s", a, n, h[:10])
		mt, known := m.byHash[h]
		if !known || mt.a != a || mt.n != n {
			r.vio("C18", "foreign-tx-batched", "", "batched transaction A%d nonce %d hash %s was never given to this pool for that account and nonce", a, n, h[:12])
			continue
		}
		discr := ""
		if m.foreignHit[a] {
			discr = "after-commit-of-unseen-tx"
		}
		switch {
		case n < m.ledgerNonce[a]:
			r.vio("C18", "below-committed", discr, "batched A%d nonce %d although the account's committed nonce is %d", a, n, m.ledgerNonce[a])
		case n < m.nextBatch[a]:
			r.vio("C18", "batched-twice", discr, "batched A%d nonce %d again (next nonce to batch was %d)", a, n, m.nextBatch[a])
		case n > m.nextBatch[a] && n > m.ledgerNonce[a]:
			exp := m.nextBatch[a]
			if m.ledgerNonce[a] > exp {
				exp = m.ledgerNonce[a]
			}
			if n != exp {
				r.vio("C18", "nonce-gap", discr, "batched A%d nonce %d but the next nonce in order is %d", a, n, exp)
			}
		}
		if n+1 > m.nextBatch[a] {
			m.nextBatch[a] = n + 1
		}
		mt.batched = true
		mb.txs = append(mb.txs, mt)
		mb.all = append(mb.all, mt)
	}
	m.batches = append(m.batches, mb)
}

// modelPending: next nonce that would become ready = first nonce >= base without a present tx.
func (r *runner) modelPending(a int) uint64 {
	n := r.m.ledgerNonce[a]
	for {
		if _, ok := r.m.present[a][n]; !ok {
			return n
		}
		n++
	}
}

func (r *runner) invariants() {
	m := r.m
	// C19: nothing admitted is silently lost
	for _, h := range sim.SortedKeys(m.byHash) {
		mt := m.byHash[h]
		if mt.status != "held" {
			continue
		}
		got := r.pool.GetTransaction(mt.tx.GetHash())
		if got == nil {
			discr := ""
			if m.foreignHit[mt.a] {
				discr = "after-commit-of-unseen-tx"
			}
			r.vio("C19", "lost", discr, "admitted transaction A%d nonce %d (%s) is neither committed, superseded nor evicted by the age rule, yet the pool no longer returns it", mt.a, mt.n, h[:12])
			mt.status = "dropped"
		} else if got.GetHash().String() != h {
			r.res.Count("diag_get_transaction_returns_other_tx")
		}
	}
	// C19: reporting
	readyUnbatched := false
	readyUnbatchedClean := false // ... of an account whose bookkeeping no commit of unseen transactions has touched
	for a := range m.ledgerNonce {
		exp := m.nextBatch[a]
		if m.ledgerNonce[a] > exp {
			exp = m.ledgerNonce[a]
		}
		// ready and unbatched: tx at exp present with all lower nonces from the committed nonce present or batched
		if mt, ok := m.present[a][exp]; ok && mt.status == "held" && !mt.batched {
			ok2 := true
			for n := m.ledgerNonce[a]; n < exp; n++ {
				if _, p := m.present[a][n]; !p {
					ok2 = false
				}
			}
			if ok2 {
				readyUnbatched = true
				if !m.foreignHit[a] {
					readyUnbatchedClean = true
				}
			}
		}
		got := r.pool.GetPendingNonceByAccount(accts[a].String())
		want := r.modelPending(a)
		if got != want {
			discr := ""
			if m.foreignHit[a] {
				discr = "after-commit-of-unseen-tx"
			}
			r.vio("C19", "pending-nonce", discr, "GetPendingNonceByAccount(A%d) = %d, but the next nonce that would become ready is %d (committed nonce %d)", a, got, want, m.ledgerNonce[a])
		}
	}
	// C19: "nor misreports its content" - the pool-size report the API uses to turn transactions away. What exactly
	// counts as held is not specified (the pool also remembers the hashes of superseded transactions), so only the two
	// unambiguous cases are judged: full although even the generous count is below the limit, and not full although
	// the certain count has reached it. Not after the commit of transactions the pool never saw (known finding: its
	// bookkeeping for that account is stale).
	if r.cfg.PoolSize > 0 {
		lower, upper := 0, 0
		foreign := false
		for _, f := range m.foreignHit {
			foreign = foreign || f
		}
		for _, mt := range m.byHash {
			switch mt.status {
			case "held":
				lower++
				upper++
			case "superseded", "dropped":
				upper++
			}
		}
		if !foreign {
			full := r.pool.IsPoolFull()
			r.res.Count("probe_pool_size_report_checked")
			if full && upper < r.cfg.PoolSize {
				r.vio("C19", "pool-size-misreported", "full", "IsPoolFull() = true although the pool was given at most %d transactions that are neither committed nor evicted (%d of them certainly held) and its limit is %d", upper, lower, r.cfg.PoolSize)
			} else if !full && lower >= r.cfg.PoolSize {
				r.vio("C19", "pool-size-misreported", "not-full", "IsPoolFull() = false although the pool certainly holds %d transactions and its limit is %d", lower, r.cfg.PoolSize)
			}
		}
	}
	if readyUnbatched {
		r.res.Count("probe_ready_unbatched_exists")
		if !r.pool.HasPendingRequest() {
			// the known stale-nonce defect makes the pool park (and not count) the transactions of the very account whose
			// block it did not see in full; it explains nothing about a ready transaction of any other account
			anyForeign := ""
			if !readyUnbatchedClean {
				anyForeign = "after-commit-of-unseen-tx"
			}
			r.vio("C19", "no-pending-work-reported", anyForeign, "a ready, not yet batched transaction exists but HasPendingRequest() is false")
		}
	}
}

func (r *runner) commitModelTx(mt *mtx) {
	m := r.m
	mt.status = "committed"
	if mt.n+1 > m.ledgerNonce[mt.a] {
		m.ledgerNonce[mt.a] = mt.n + 1
	}
}

// afterCommitCleanup: everything below the committed nonce is no longer expected to be held
func (r *runner) afterCommitCleanup() {
	m := r.m
	for a := range m.ledgerNonce {
		for n, mt := range m.present[a] {
			if n < m.ledgerNonce[a] {
				if mt.status == "held" {
					mt.status = "superseded" // a different tx with this (account, nonce) was committed
				}
				delete(m.present[a], n)
			}
		}
		if m.nextBatch[a] < m.ledgerNonce[a] {
			m.nextBatch[a] = m.ledgerNonce[a]
		}
		if m.nextSubmit[a] < m.ledgerNonce[a] {
			m.nextSubmit[a] = m.ledgerNonce[a]
		}
	}
}

func Execute(t *testing.T, prop string, p *sim.Plan, keep bool) (res *sim.Result) {
	res = sim.NewResult()
	res.Log.Keep = keep
	defer func() {
		if e := recover(); e != nil {
			res.Violate(prop, "panic", res.Steps, "", "mempool panicked: %v", e)
		}
	}()
	synctest.Test(t, func(t *testing.T) {
		defer func() {
			if e := recover(); e != nil {
				res.Violate(prop, "panic", res.Steps, "", "mempool panicked: %v", e)
			}
		}()
		execInBubble(prop, p, res)
	})
	return res
}

func execInBubble(prop string, p *sim.Plan, res *sim.Result) {
	cfg := PConfig{}
	_ = json.Unmarshal(p.Config, &cfg)
	if cfg.Accounts < 1 {
		cfg.Accounts = 1
	}
	if cfg.Accounts > len(accts) {
		cfg.Accounts = len(accts)
	}
	if cfg.BatchSize < 1 {
		cfg.BatchSize = 1
	}
	r := &runner{prop: prop, res: res, cfg: cfg, m: newPModel(cfg)}
	r.newPool()
	m := r.m
	t0 := time.Now()
	for i, raw := range p.Steps {
		var s PStep
		if json.Unmarshal(raw, &s) != nil {
			continue
		}
		r.step = i
		res.Steps++
		if r.park != nil {
			if r.parkHold <= 0 {
				r.releaseQuery()
			}
			r.parkHold--
		}
		switch s.Op {
		case "racequery":
			r.startQuery(s.K%cfg.Accounts, 1+s.D%3)
			res.Log.Logf("%d concurrent pending-nonce query for A%d parked=%v", i, s.K%cfg.Accounts, r.park != nil)
		case "submit":
			var txs []pb.Transaction
			var adm []*mtx
			seen := map[[2]uint64]bool{}
			for _, pt := range s.Txs {
				a := pt.A % cfg.Accounts
				nn := int64(m.nextSubmit[a]) + int64(pt.Off)
				if nn < 0 {
					nn = 0
				}
				n := uint64(nn)
				tx := mkTx(a, n, pt.V, time.Now().UnixNano()+pt.TS*int64(time.Millisecond))
				h := tx.GetHash().String()
				txs = append(txs, tx)
				// admission by the documented entry filter, observed through the public API
				pend := r.pool.GetPendingNonceByAccount(accts[a].String())
				key := [2]uint64{uint64(a), n}
				admitted := n >= pend && r.pool.GetTransaction(tx.GetHash()) == nil && !seen[key]
				if _, dupHash := m.byHash[h]; dupHash && m.byHash[h].status == "held" {
					admitted = false
				}
				res.Log.Logf("%d submit A%d n=%d v=%d %s admitted=%v", i, a, n, pt.V, h[:10], admitted)
				if n < pend {
					res.Count("fault_stale_nonce_submitted")
				}
				if n >= pend {
					// the entry filter remembers the first transaction per (account, nonce) of one call
					// before it looks at hashes, so a later one in the same call is dropped either way
					seen[key] = true
				}
				if admitted {
					mt := &mtx{hash: h, a: a, n: n, status: "held", arrived: time.Now(), tx: tx}
					adm = append(adm, mt)
					if old, ok := m.present[a][n]; ok && old.hash != h {
						res.Count("fault_conflicting_tx_same_nonce")
					}
				} else if n >= pend {
					res.Count("fault_duplicate_hash_or_pointer_submitted")
				}
				if n+1 > m.nextSubmit[a] {
					m.nextSubmit[a] = n + 1
				}
				if pt.Off > 0 {
					res.Count("fault_out_of_order_submit")
				}
			}
			b := r.pool.ProcessTransactions(txs, s.Leader, s.Local)
			synctest.Wait()
			for _, mt := range adm {
				if prev, ok := m.byHash[mt.hash]; ok && (prev.status == "superseded" || prev.status == "evicted") && r.pool.GetTransaction(mt.tx.GetHash()) == nil {
					// a transaction that was in the pool before and left it without being committed (superseded by a
					// conflicting one, or evicted): whether the entry filter takes it again is not specified (the pool
					// keeps the hash of a superseded transaction and treats the re-submission as a duplicate), so
					// admission is read off the pool itself for these
					res.Count("diag_resubmission_of_superseded_or_evicted_tx_not_taken")
					continue
				}
				if old, ok := m.present[mt.a][mt.n]; ok && old.hash != mt.hash {
					if old.batched {
						// the older tx is already on its way through consensus: the newcomer is the one that loses
						mt.status = "superseded"
						m.byHash[mt.hash] = mt
						continue
					}
					old.status = "superseded"
				}
				m.present[mt.a][mt.n] = mt
				m.byHash[mt.hash] = mt
			}
			r.checkBatch(b, "ProcessTransactions")
			if b != nil && !s.Leader {
				r.vio("C18", "follower-batched", "", "ProcessTransactions on a non-leader returned a batch")
			}
		case "gen":
			had := r.pool.HasPendingRequest()
			b := r.pool.GenerateBlock()
			synctest.Wait()
			res.Log.Logf("%d gen pending=%v -> %v", i, had, b != nil)
			r.checkBatch(b, "GenerateBlock")
		case "commit":
			var open []*mbatch
			for _, b := range m.batches {
				if !b.done {
					open = append(open, b)
				}
			}
			mode := s.Mode
			if mode == "foreign" {
				// a block from another leader: next nonces of some accounts, transactions this pool never saw
				var hashes []*types.Hash
				a := s.K % cfg.Accounts
				cnt := 1 + s.K%2
				for j := 0; j < cnt; j++ {
					n := m.ledgerNonce[a]
					tx := mkTx(a, n, 1000+i, int64(i))
					hashes = append(hashes, tx.GetHash())
					m.ledgerNonce[a] = n + 1
					m.foreignHit[a] = true
				}
				m.committedH++
				res.Count("fault_commit_of_unseen_txs")
				res.Log.Logf("%d commit foreign block A%d x%d", i, a, cnt)
				r.pool.CommitTransactions(&mempool.ChainState{Height: m.committedH, TxHashList: hashes})
				synctest.Wait()
				r.afterCommitCleanup()
				break
			}
			if mode == "gapblock" {
				// this replica as a follower that missed a broadcast: it holds (A, n+1…) parked because (A, n) never reached
				// it; another leader's block carries n (unseen here) and the parked ones
				a := s.K % cfg.Accounts
				n0 := m.ledgerNonce[a]
				if _, have := m.present[a][n0]; have {
					continue
				}
				var parked []*mtx
				for n := n0 + 1; len(parked) < 1+s.K%2; n++ {
					mt := m.present[a][n]
					if mt == nil || mt.batched || mt.status != "held" {
						break
					}
					parked = append(parked, mt)
				}
				if len(parked) == 0 {
					continue
				}
				missing := mkTx(a, n0, 2000+i, int64(i))
				hashes := []*types.Hash{missing.GetHash()}
				m.ledgerNonce[a] = n0 + 1
				m.foreignHit[a] = true
				for _, mt := range parked {
					hashes = append(hashes, mt.tx.GetHash())
					r.commitModelTx(mt)
				}
				m.committedH++
				res.Count("fault_commit_of_block_with_unseen_and_parked_txs")
				res.Log.Logf("%d commit gap block A%d n=%d (unseen) + %d parked", i, a, n0, len(parked))
				r.pool.CommitTransactions(&mempool.ChainState{Height: m.committedH, TxHashList: hashes})
				synctest.Wait()
				r.afterCommitCleanup()
				break
			}
			if mode == "peerblocks" {
				// this replica as a follower: another leader minted two consecutive blocks out of transactions this pool
				// holds ready and unbatched (it got them by broadcast); the commit reports reach the pool in swapped order
				// (the application sends each one from a goroutine of its own)
				pick := func(a int) []*mtx {
					var out []*mtx
					for n := m.ledgerNonce[a]; len(out) < 1+s.K%2; n++ {
						mt := m.present[a][n]
						if mt == nil || mt.batched || mt.status != "held" {
							break
						}
						out = append(out, mt)
					}
					return out
				}
				a := s.K % cfg.Accounts
				first := pick(a)
				if len(first) == 0 {
					continue
				}
				var second []*mtx
				if b := (a + 1) % cfg.Accounts; b != a && s.K%3 != 0 {
					second = pick(b)
				}
				h1, h2 := m.committedH+1, m.committedH+2
				m.committedH += 2
				var hs1, hs2 []*types.Hash
				for _, mt := range first {
					hs1 = append(hs1, mt.tx.GetHash())
					r.commitModelTx(mt)
				}
				for _, mt := range second {
					hs2 = append(hs2, mt.tx.GetHash())
					r.commitModelTx(mt)
				}
				res.Count("fault_peer_blocks_reported_out_of_order")
				res.Log.Logf("%d commit peer blocks %d (A%d x%d) and %d (x%d), reports swapped", i, h1, a, len(first), h2, len(second))
				r.pool.CommitTransactions(&mempool.ChainState{Height: h2, TxHashList: hs2})
				synctest.Wait()
				r.pool.CommitTransactions(&mempool.ChainState{Height: h1, TxHashList: hs1})
				synctest.Wait()
				r.afterCommitCleanup()
				break
			}
			if len(open) == 0 || mode == "dup" {
				var comm []*mbatch
				for _, b := range m.batches {
					if b.committed {
						comm = append(comm, b)
					}
				}
				if mode == "dup" && len(comm) > 0 {
					// re-delivery of the notification of a block that really is in the ledger
					b := comm[s.K%len(comm)]
					var hashes []*types.Hash
					for _, mt := range b.all {
						hashes = append(hashes, mt.tx.GetHash())
					}
					res.Count("fault_duplicate_commit")
					res.Log.Logf("%d commit duplicate of batch %d", i, b.height)
					r.pool.CommitTransactions(&mempool.ChainState{Height: b.height, TxHashList: hashes})
					synctest.Wait()
				}
				continue
			}
			idx := s.K % len(open)
			if idx > 0 {
				res.Count("fault_out_of_order_commit")
			}
			b := open[idx]
			var hashes []*types.Hash
			list := b.txs
			if mode == "partial" && len(list) > 1 {
				list = list[:len(list)/2]
				res.Count("fault_partial_commit")
			} else {
				b.done = true
				b.committed = true
			}
			for _, mt := range list {
				hashes = append(hashes, mt.tx.GetHash())
				r.commitModelTx(mt)
			}
			if mode == "partial" {
				b.txs = b.txs[len(list):]
			}
			m.committedH++
			res.Log.Logf("%d commit batch %d (%s) txs=%d", i, b.height, mode, len(hashes))
			r.pool.CommitTransactions(&mempool.ChainState{Height: b.height, TxHashList: hashes})
			synctest.Wait()
			r.afterCommitCleanup()
			res.Count("commits")
		case "seq":
			r.pool.SetBatchSeqNo(m.committedH)
			m.lastHeight = m.committedH
			res.Count("fault_batch_seq_reset")
			res.Log.Logf("%d seq reset to %d", i, m.committedH)
		case "tick":
			time.Sleep(time.Duration(s.D) * time.Millisecond)
			res.Log.Logf("%d tick %dms", i, s.D)
		case "rebroadcast":
			lists := r.pool.GetTimeoutTransactions(time.Duration(s.D) * time.Millisecond)
			synctest.Wait()
			cnt := 0
			for _, l := range lists {
				for _, tx := range l {
					cnt++
					if tx == nil {
						r.vio("C19", "rebroadcast-nil", "", "GetTimeoutTransactions returned a nil transaction")
					}
				}
			}
			if cnt > 0 {
				res.Count("probe_rebroadcast_nonempty")
			}
			res.Log.Logf("%d rebroadcast d=%dms -> %d", i, s.D, cnt)
		case "evict":
			d := time.Duration(s.D) * time.Millisecond
			// eligible by the documented age rule: non-ready, not batched, older than the tolerance
			elig := map[string]bool{}
			for h, mt := range m.byHash {
				if mt.status != "held" {
					continue
				}
				pend := r.pool.GetPendingNonceByAccount(accts[mt.a].String())
				if !mt.batched && mt.n > pend && time.Since(mt.arrived) > d {
					elig[h] = true
				}
			}
			cnt := r.pool.RemoveAliveTimeoutTxs(d)
			synctest.Wait()
			gone := 0
			for _, h := range sim.SortedKeys(m.byHash) {
				mt := m.byHash[h]
				if mt.status != "held" {
					continue
				}
				if r.pool.GetTransaction(mt.tx.GetHash()) == nil {
					gone++
					if elig[h] {
						mt.status = "evicted"
						delete(m.present[mt.a], mt.n)
						// the account's submit cursor may go back so that the gap can be refilled
					} else {
						why := "ready"
						if mt.batched {
							why = "batched"
						} else if time.Since(mt.arrived) <= d {
							why = "young"
						}
						r.vio("C19", "evicted-illegitimately", why, "RemoveAliveTimeoutTxs(%v) removed A%d nonce %d which is %s (rule: non-ready, not batched, older than the tolerance)", d, mt.a, mt.n, why)
						mt.status = "dropped"
						delete(m.present[mt.a], mt.n)
					}
				}
			}
			if gone > 0 {
				res.Count("fault_age_eviction_fired")
			}
			res.Log.Logf("%d evict d=%dms -> reported %d, gone %d", i, s.D, cnt, gone)
		case "restart":
			for _, mt := range m.byHash {
				if mt.status == "held" {
					mt.status = "dropped"
				}
			}
			m.byHash = map[string]*mtx{}
			for a := range m.present {
				m.present[a] = map[uint64]*mtx{}
				m.nextBatch[a] = m.ledgerNonce[a]
				m.nextSubmit[a] = m.ledgerNonce[a]
				m.foreignHit[a] = false
			}
			for _, b := range m.batches {
				b.done = true
			}
			r.newPool()
			res.Count("fault_pool_restart")
			res.Log.Logf("%d restart at height %d", i, m.committedH)
		}
		if r.park == nil {
			r.invariants()
		}
		if len(res.Violations) > 0 {
			break
		}
		// abstract state: per-account shape
		for a := 0; a < cfg.Accounts; a++ {
			held, batched := 0, 0
			for _, mt := range m.present[a] {
				if mt.batched {
					batched++
				} else {
					held++
				}
			}
			res.State(min(held, 3), min(batched, 3), r.modelPending(a) > m.ledgerNonce[a], r.pool.HasPendingRequest(), m.foreignHit[a])
		}
	}
	r.releaseQuery()
	if len(res.Violations) == 0 {
		r.invariants()
	}
	if len(res.Violations) == 0 && prop == "C19" {
		r.drain()
	}
	res.SimNanos = int64(time.Since(t0))
	res.Nontrivial = res.Counters["batches"] > 0 && res.Counters["commits"] > 0
	res.Shape = res.Log.Digest()
}

// drain: the finite continuation "generate batches and commit them until no pending work": every
// admitted transaction whose lower nonces are all present must have been included in a batch.
func (r *runner) drain() {
	m := r.m
	r.step = r.res.Steps
	budget := len(m.byHash) + 8
	for k := 0; k < budget; k++ {
		if !r.cfg.Timed && !r.pool.HasPendingRequest() {
			break
		}
		b := r.pool.GenerateBlock()
		synctest.Wait()
		if b == nil {
			break
		}
		before := len(m.batches)
		r.checkBatch(b, "drain")
		if len(m.batches) == before {
			break
		}
		mb := m.batches[len(m.batches)-1]
		if len(mb.txs) == 0 && r.cfg.Timed {
			mb.done = true
			r.pool.CommitTransactions(&mempool.ChainState{Height: mb.height})
			synctest.Wait()
			// an empty timed block with nothing else pending ends the continuation
			anyUnbatched := false
			for _, mt := range m.byHash {
				if mt.status == "held" && !mt.batched {
					anyUnbatched = true
				}
			}
			if !anyUnbatched || k > budget/2 {
				break
			}
			continue
		}
		var hashes []*types.Hash
		for _, mt := range mb.txs {
			hashes = append(hashes, mt.tx.GetHash())
			r.commitModelTx(mt)
		}
		mb.done = true
		mb.committed = true
		m.committedH++
		r.pool.CommitTransactions(&mempool.ChainState{Height: mb.height, TxHashList: hashes})
		synctest.Wait()
		r.afterCommitCleanup()
	}
	r.res.Count("drains")
	// commit what was batched before the drain but never committed (in-flight batches complete)
	for _, a := range sortedAccts(len(m.ledgerNonce)) {
		// every held tx whose lower nonces (from the committed nonce) are all present must be batched by now
		n := m.ledgerNonce[a]
		for {
			mt, ok := m.present[a][n]
			if !ok {
				break
			}
			if mt.status == "held" && !mt.batched {
				discr := ""
				if m.foreignHit[a] {
					discr = "after-commit-of-unseen-tx"
				}
				r.vio("C19", "ready-tx-never-batched", discr,
					"after generating and committing batches until the pool reported no pending work, A%d nonce %d is still unbatched although every lower nonce from the committed nonce %d is present", a, n, m.ledgerNonce[a])
				return
			}
			n++
		}
	}
}

func sortedAccts(n int) []int {
	s := make([]int, n)
	for i := range s {
		s[i] = i
	}
	sort.Ints(s)
	return s
}

func SimplifyStep(raw json.RawMessage) []json.RawMessage {
	var s PStep
	if json.Unmarshal(raw, &s) != nil {
		return nil
	}
	var out []json.RawMessage
	if s.Op == "submit" {
		for i := range s.Txs {
			if len(s.Txs) > 1 {
				c := s
				c.Txs = append(append([]PTx(nil), s.Txs[:i]...), s.Txs[i+1:]...)
				out = append(out, sim.MustJSON(c))
			}
			if s.Txs[i].TS != 0 {
				c := s
				c.Txs = append([]PTx(nil), s.Txs...)
				c.Txs[i].TS = 0
				out = append(out, sim.MustJSON(c))
			}
			if s.Txs[i].A != 0 {
				c := s
				c.Txs = append([]PTx(nil), s.Txs...)
				c.Txs[i].A = 0
				out = append(out, sim.MustJSON(c))
			}
		}
	}
	if s.K > 0 {
		c := s
		c.K = 0
		out = append(out, sim.MustJSON(c))
	}
	return out
}

func SimplifyConfig(raw json.RawMessage) []json.RawMessage {
	cfg := PConfig{}
	if json.Unmarshal(raw, &cfg) != nil {
		return nil
	}
	var out []json.RawMessage
	if cfg.Accounts > 1 {
		c := cfg
		c.Accounts--
		out = append(out, sim.MustJSON(c))
	}
	if cfg.PoolSize != 0 {
		c := cfg
		c.PoolSize = 0
		out = append(out, sim.MustJSON(c))
	}
	if cfg.Timed {
		c := cfg
		c.Timed = false
		out = append(out, sim.MustJSON(c))
	}
	if cfg.StartNonce != 0 {
		c := cfg
		c.StartNonce = 0
		out = append(out, sim.MustJSON(c))
	}
	return out
}
