package poolsim

import (
	"testing/synctest"
	"time"

	"github.com/ethereum/go-ethereum/event"
	"github.com/meshplus/bitxhub-kit/types"
	"github.com/meshplus/bitxhub-model/pb"
	raftproto "github.com/meshplus/bitxhub/pkg/order/etcdraft/proto"
	"github.com/meshplus/bitxhub/pkg/order/mempool"
)

// ---------------------------------------------------------------------------------------------
// Concurrent API query ("External is a concurrent and safe interface, which can be called by api
// module directly"): a second goroutine asks for the pending nonce of an account the pool has not
// cached yet; the harness owns the ledger callback the pool uses for that and parks the query inside
// it (after the ledger value was read) while the driver goes on with the next steps. Whatever the pool
// serialises behind the parked query is let through by releasing the query first, so a pool that
// holds its locks across the ledger lookup simply never shows the window.

type guardedPool struct {
	r     *runner
	inner mempool.MemPool
}

// guard runs one pool call of the driver. While a query is parked the call runs on its own goroutine; if it
// does not return it is waiting for the parked query: release that one first.
func (g *guardedPool) guard(f func()) {
	r := g.r
	if r.park == nil {
		f()
		return
	}
	done := make(chan struct{})
	go func() { f(); close(done) }()
	synctest.Wait()
	select {
	case <-done:
		return
	default:
	}
	r.res.Count("probe_pool_call_serialised_behind_parked_query")
	r.releaseQuery()
	<-done
}

func (g *guardedPool) ProcessTransactions(txs []pb.Transaction, isLeader, isLocal bool) (b *raftproto.RequestBatch) {
	g.guard(func() { b = g.inner.ProcessTransactions(txs, isLeader, isLocal) })
	return
}
func (g *guardedPool) GenerateBlock() (b *raftproto.RequestBatch) {
	g.guard(func() { b = g.inner.GenerateBlock() })
	return
}
func (g *guardedPool) CommitTransactions(state *mempool.ChainState) {
	g.guard(func() { g.inner.CommitTransactions(state) })
}
func (g *guardedPool) HasPendingRequest() (v bool) {
	g.guard(func() { v = g.inner.HasPendingRequest() })
	return
}
func (g *guardedPool) SetBatchSeqNo(n uint64) { g.guard(func() { g.inner.SetBatchSeqNo(n) }) }
func (g *guardedPool) GetTimeoutTransactions(d time.Duration) (v [][]pb.Transaction) {
	g.guard(func() { v = g.inner.GetTimeoutTransactions(d) })
	return
}
func (g *guardedPool) RemoveAliveTimeoutTxs(d time.Duration) (v uint64) {
	g.guard(func() { v = g.inner.RemoveAliveTimeoutTxs(d) })
	return
}
func (g *guardedPool) SubscribeTxEvent(ch chan<- pb.Transactions) event.Subscription {
	return g.inner.SubscribeTxEvent(ch)
}
func (g *guardedPool) GetPendingNonceByAccount(account string) (v uint64) {
	g.guard(func() { v = g.inner.GetPendingNonceByAccount(account) })
	return
}
func (g *guardedPool) GetPendingTransactions(max int) (v []pb.Transaction) {
	g.guard(func() { v = g.inner.GetPendingTransactions(max) })
	return
}
func (g *guardedPool) GetTransaction(hash *types.Hash) (v pb.Transaction) {
	g.guard(func() { v = g.inner.GetTransaction(hash) })
	return
}
func (g *guardedPool) IsPoolFull() (v bool) {
	g.guard(func() { v = g.inner.IsPoolFull() })
	return
}

// startQuery launches the concurrent pending-nonce query for account a; hold = number of driver steps it stays parked.
func (r *runner) startQuery(a, hold int) {
	if r.park != nil {
		r.releaseQuery()
	}
	r.park = make(chan struct{})
	r.parkAcct, r.parkHold, r.parkedIn = a, hold, false
	r.queryDone = make(chan struct{})
	inner := r.pool.(*guardedPool).inner
	go func(done chan struct{}) {
		inner.GetPendingNonceByAccount(accts[a].String())
		close(done)
	}(r.queryDone)
	synctest.Wait()
	select {
	case <-r.queryDone:
		// the account was cached already: the query never went to the ledger
		r.park, r.queryDone = nil, nil
		r.res.Count("probe_concurrent_query_answered_from_cache")
	default:
		r.res.Count("fault_concurrent_query_parked_in_ledger_lookup")
	}
}

// releaseQuery lets the parked query finish.
func (r *runner) releaseQuery() {
	if r.park == nil {
		return
	}
	close(r.park)
	done := r.queryDone
	r.park, r.queryDone = nil, nil
	synctest.Wait()
	if done != nil {
		<-done
	}
}
