package ordersim

import (
	"time"

	"github.com/coreos/etcd/raft/raftpb"
	raftproto "github.com/meshplus/bitxhub/pkg/order/etcdraft/proto"
)

// "Ack, then crash": a biased fault schedule layered on the random driver (three-node raft clusters, drawn per run).
// Faults placed uniformly at random hardly ever hit the window in which a follower has stored and acknowledged an
// entry but has not yet learned that it is committed. The adversary builds exactly that history:
//
//  1. it waits for an append message with fresh entries from the leader L to a follower F, delivers it, and stops
//     every message from L to the third replica (which therefore never sees those entries);
//  2. it delivers F's acknowledgement to L and stops L's messages to F: L commits with F's vote and hands the block to
//     its executor, F does not learn the commit index;
//  3. F crashes; L is cut off from everybody;
//  4. F restarts from its own storage, the cuts towards the third replica are healed, and the random driver goes on:
//     F and the third replica elect a leader and order new transactions.
//
// Nothing is judged here: the ordinary history oracles (one content per height on all replicas, heights handed over
// in order, no transaction in two blocks) see whether the entry L delivered survived F's restart.
type ackCrash struct {
	phase   int
	l, f    uint64
	hBefore uint64
	since   int
}

func decodeRaft(m netMsg) *raftpb.Message {
	rm := &raftproto.RaftMessage{}
	if rm.Unmarshal(m.data) != nil || rm.Type != raftproto.RaftMessage_CONSENSUS {
		return nil
	}
	msg := &raftpb.Message{}
	if msg.Unmarshal(rm.Data) != nil {
		return nil
	}
	return msg
}

func (c *cluster) deliverNow(i int) {
	m := c.inflight[i]
	c.inflight = append(c.inflight[:i], c.inflight[i+1:]...)
	to := c.nodes[m.to-1]
	if !to.alive {
		return
	}
	c.res.Count("msgs_delivered")
	c.noteLateTx(m.data)
	ord, data := to.ord, m.data
	go func() { _ = ord.Step(data) }()
}

// advStep performs the adversary's next move, if it has one; true = the step is used up.
func (c *cluster) advStep() bool {
	a := c.adv
	if a == nil || a.phase > 3 {
		return false
	}
	abort := func() bool {
		for k := range c.net.cut {
			delete(c.net.cut, k)
		}
		a.phase = 9
		c.res.Count("adversary_ack_crash_aborted")
		return false
	}
	switch a.phase {
	case 0:
		if c.step < 120 || len(c.agreed) < 1 || len(c.net.cut) > 0 {
			return false
		}
		for _, n := range c.nodes {
			if !n.alive {
				return false
			}
		}
		for i, m := range c.inflight {
			msg := decodeRaft(m)
			if msg == nil || msg.Type != raftpb.MsgApp {
				continue
			}
			fresh := false
			for _, e := range msg.Entries {
				if e.Type == raftpb.EntryNormal && len(e.Data) > 0 && e.Term == msg.Term {
					fresh = true
				}
			}
			if !fresh {
				continue
			}
			a.l, a.f, a.since = m.from, m.to, c.step
			a.hBefore = c.nodes[a.l-1].lastDelivered
			for _, n := range c.nodes {
				if n.id != a.l && n.id != a.f {
					c.net.cut[[2]uint64{a.l, n.id}] = true // the third replica never sees the entries
				}
			}
			c.res.Log.Logf("%d adversary: append n%d -> n%d delivered, n%d cut off from the rest", c.step, a.l, a.f, a.l)
			c.deliverNow(i)
			a.phase = 1
			return true
		}
		return false
	case 1:
		if c.step > a.since+120 || !c.nodes[a.l-1].alive || !c.nodes[a.f-1].alive {
			return abort()
		}
		if c.nodes[a.l-1].lastDelivered > a.hBefore {
			a.phase = 2
			return c.advStep()
		}
		// traffic between L and F only; once F has acknowledged, nothing from L reaches F any more
		for i, m := range c.inflight {
			if m.from == a.f && m.to == a.l {
				if msg := decodeRaft(m); msg != nil && msg.Type == raftpb.MsgAppResp && !msg.Reject {
					c.net.cut[[2]uint64{a.l, a.f}] = true
				}
				c.deliverNow(i)
				return true
			}
		}
		for i, m := range c.inflight {
			if m.from == a.l && m.to == a.f && !c.net.cut[[2]uint64{a.l, a.f}] {
				c.deliverNow(i)
				return true
			}
		}
		time.Sleep(5003 * time.Microsecond)
		return true
	case 2:
		c.res.Log.Logf("%d adversary: n%d handed over height %d on n%d's acknowledgement; n%d crashes, n%d is cut off", c.step, a.l, c.nodes[a.l-1].lastDelivered, a.f, a.f, a.l)
		c.res.Count("adversary_ack_crash_fired")
		c.crash(c.nodes[a.f-1])
		for _, n := range c.nodes {
			if n.id != a.l {
				c.net.cut[[2]uint64{a.l, n.id}] = true
				c.net.cut[[2]uint64{n.id, a.l}] = true
			}
		}
		c.lastFaultStep = c.step
		a.phase = 3
		return true
	case 3:
		if err := c.startNode(c.nodes[a.f-1]); err != nil {
			c.vio("restart-failed", "", "node %d cannot restart from its own storage: %v", a.f, err)
		}
		c.res.Count("fault_restart")
		c.res.Log.Logf("%d adversary: n%d restarts; n%d stays cut off", c.step, a.f, a.l)
		a.phase = 4
		a.since = c.step
		return true
	}
	return false
}
