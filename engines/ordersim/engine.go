package ordersim

import (
	"encoding/json"
	"testing"

	"github.com/meshplus/bitxhub/verif/sim"
)

type Engine struct{ T *testing.T }

func (Engine) Name() string { return "ordersim" }
func (Engine) Generate(prop string, r *sim.Rand, tier string) *sim.Plan {
	return Generate(prop, r, tier)
}
func (e Engine) Execute(prop string, p *sim.Plan, keep bool) *sim.Result {
	return Execute(e.T, prop, p, keep)
}
func (Engine) SimplifyStep(prop string, s json.RawMessage) []json.RawMessage {
	// tape entries: the neutral choice is 0
	if string(s) != "0" {
		return []json.RawMessage{json.RawMessage("0")}
	}
	return nil
}
func (Engine) SimplifyConfig(prop string, c json.RawMessage) []json.RawMessage {
	cfg := OConfig{}
	if json.Unmarshal(c, &cfg) != nil {
		return nil
	}
	var out []json.RawMessage
	if cfg.Steps > 200 {
		x := cfg
		x.Steps = cfg.Steps * 2 / 3
		if x.QuietSteps > x.Steps/3 {
			x.QuietSteps = x.Steps / 3
		}
		out = append(out, sim.MustJSON(x))
	}
	for _, f := range []func(*OConfig){func(o *OConfig) { o.PDup = 0 }, func(o *OConfig) { o.PDrop = 0 }, func(o *OConfig) { o.PPartition = 0 }, func(o *OConfig) { o.PCrash = 0 },
		func(o *OConfig) { o.Accounts = 1 }, func(o *OConfig) { o.Timed = false }} {
		x := cfg
		f(&x)
		if sim.MustJSON(x) != nil && string(sim.MustJSON(x)) != string(sim.MustJSON(cfg)) {
			out = append(out, sim.MustJSON(x))
		}
	}
	return out
}

// Resamples: between two quiescent points goroutines of a node run under the Go scheduler and a
// select with several ready channels picks at random, so a small share of runs is not a pure
// function of the tape (measured by `check selftest C20`); a replay re-executes the recorded tape
// until the violation shows again.
func (Engine) Resamples(prop string) int { return 12 }
