package ordersim

import (
	"math/rand"
	"sync"
	_ "unsafe" // go:linkname

	_ "github.com/coreos/etcd/raft"
)

// etcd raft draws its randomized election timeouts from a package-level generator that is seeded
// from the wall clock at package initialisation. It is re-seeded per run here so that a run is a
// pure function of its plan (the mirror type has the layout of raft.lockedRand; the build already
// needs -ldflags=-checklinkname=0).
type lockedRandMirror struct {
	mu   sync.Mutex
	rand *rand.Rand
}

//go:linkname raftGlobalRand github.com/coreos/etcd/raft.globalRand
var raftGlobalRand *lockedRandMirror

func reseedRaft(seed uint64) {
	raftGlobalRand.mu.Lock()
	raftGlobalRand.rand = rand.New(rand.NewSource(int64(seed)))
	raftGlobalRand.mu.Unlock()
}
