package ordersim

import (
	"fmt"
	"os"
	"strconv"
	"testing"

	"github.com/meshplus/bitxhub/verif/sim"
)

// TestDeterminismDebug (dev aid): VERIF_DET_RUN=<run index> executes that run twice and prints the first differing log lines.
func TestDeterminismDebug(t *testing.T) {
	v := os.Getenv("VERIF_DET_RUN")
	if v == "" {
		t.Skip()
	}
	e := Engine{T: t}
	if pre := os.Getenv("VERIF_DET_PRE"); pre != "" {
		pi, _ := strconv.Atoi(pre)
		ps := sim.Derive(1, "ordersim/C20", uint64(pi))
		pp := e.Generate("C20", sim.NewRand(ps), "quick")
		pp.Seed = ps
		r := e.Execute("C20", pp, false)
		fmt.Println("pre-run digest", r.Log.Digest()[:12])
	}
	idx, _ := strconv.Atoi(v)
	seed := sim.Derive(1, "ordersim/C20", uint64(idx))
	mk := func() *sim.Result {
		p := e.Generate("C20", sim.NewRand(seed), "quick")
		p.Seed = seed
		return e.Execute("C20", p, true)
	}
	a := mk()
	if f := os.Getenv("VERIF_DET_DUMP"); f != "" {
		out := ""
		for _, l := range a.Log.Lines {
			out += l + "\n"
		}
		_ = os.WriteFile(f, []byte(out), 0644)
		fmt.Println("digest", a.Log.Digest()[:12], len(a.Log.Lines))
		return
	}
	b := mk()
	fmt.Println("digests", a.Log.Digest()[:12], b.Log.Digest()[:12], len(a.Log.Lines), len(b.Log.Lines))
	for i := 0; i < len(a.Log.Lines) && i < len(b.Log.Lines); i++ {
		if a.Log.Lines[i] != b.Log.Lines[i] {
			lo := i - 5
			if lo < 0 {
				lo = 0
			}
			for j := lo; j <= i+2 && j < len(a.Log.Lines) && j < len(b.Log.Lines); j++ {
				fmt.Printf("A[%d] %s\nB[%d] %s\n", j, a.Log.Lines[j], j, b.Log.Lines[j])
			}
			break
		}
	}
}
