package ordersim

import (
	"testing"

	"github.com/meshplus/bitxhub/verif/sim"
)

func TestWorker(t *testing.T) {
	cfg, err := sim.LoadWorkerCfg()
	if err != nil {
		t.Fatal(err)
	}
	if cfg == nil {
		t.Skip("no VERIF_WORKER_CFG")
	}
	if err := sim.RunWorker(Engine{T: t}, cfg); err != nil {
		t.Fatal(err)
	}
}
