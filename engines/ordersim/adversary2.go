package ordersim

import (
	"time"

	"github.com/coreos/etcd/raft/raftpb"
)

// "Vote, then crash": a second biased schedule for three-node raft clusters (drawn per run, never together with
// "ack, then crash"). Raft's safety rests on a replica remembering across a restart which term it is in and whom it
// voted for; a vote is granted in a Ready that carries nothing but the hard state, so the window between the grant and
// the next stored entry is a few hundred microseconds wide and uniformly random crashes never land in it. The adversary
// builds the history in which a forgotten vote matters:
//
//  1. the leader X crashes; the adversary waits until one of the other two, A, asks the other, B, for its vote;
//  2. it delivers the request, waits for B's grant and delivers it: A is leader of the new term by A's and B's votes;
//  3. B crashes before anything else reaches it; A is cut off from both others;
//  4. B and X restart from their own storage; the random driver goes on. B remembers the term, so the two of them can
//     only elect a leader in a HIGHER term, and A steps down when the cut is healed. A replica that forgot would let a
//     second leader arise in A's term, and once the cut is healed both would commit different batches at one index;
//  5. the cut is healed once B or X has handed over a new block (or after 400 steps).
//
// Nothing is judged here; the ordinary history oracles (one content per height on all replicas, …) decide.
type voteCrash struct {
	phase   int
	x, a, b uint64
	term    uint64
	since   int
	hBefore uint64
}

func (c *cluster) adv2Step() bool {
	v := c.adv2
	if v == nil || v.phase > 5 {
		return false
	}
	abort := func(why string) bool {
		for _, n := range c.nodes {
			if n.id != v.a {
				delete(c.net.cut, [2]uint64{v.a, n.id})
				delete(c.net.cut, [2]uint64{n.id, v.a})
			}
		}
		v.phase = 9
		c.res.Count("adversary_vote_crash_aborted_" + why)
		return false
	}
	switch v.phase {
	case 0:
		if c.step < 120 || len(c.agreed) < 1 || len(c.net.cut) > 0 {
			return false
		}
		for _, n := range c.nodes {
			if !n.alive {
				return false
			}
		}
		// the leader shows in its own heartbeats and appends
		for _, m := range c.inflight {
			msg := decodeRaft(m)
			if msg == nil || (msg.Type != raftpb.MsgHeartbeat && msg.Type != raftpb.MsgApp) {
				continue
			}
			v.x, v.term, v.since = m.from, msg.Term, c.step
			c.res.Log.Logf("%d adversary2: leader n%d of term %d crashes", c.step, v.x, v.term)
			c.crash(c.nodes[v.x-1])
			c.lastFaultStep = c.step
			v.phase = 1
			return true
		}
		return false
	case 1:
		if c.step > v.since+600 {
			return abort("no_candidate")
		}
		for _, n := range c.nodes {
			if n.id != v.x && !n.alive {
				return abort("voter_down")
			}
		}
		for i, m := range c.inflight {
			msg := decodeRaft(m)
			if msg == nil || msg.Type != raftpb.MsgVote || msg.Term <= v.term || m.to == v.x {
				continue
			}
			v.a, v.b, v.term, v.since = m.from, m.to, msg.Term, c.step
			c.res.Log.Logf("%d adversary2: n%d asks n%d for its vote in term %d; delivered", c.step, v.a, v.b, v.term)
			c.deliverNow(i)
			v.phase = 2
			return true
		}
		if c.step%2 == 0 {
			time.Sleep(50311 * time.Microsecond)
			return true
		}
		return false
	case 2:
		if c.step > v.since+40 || !c.nodes[v.a-1].alive || !c.nodes[v.b-1].alive {
			return abort("no_grant")
		}
		for i, m := range c.inflight {
			if m.from != v.b || m.to != v.a {
				continue
			}
			msg := decodeRaft(m)
			if msg == nil || msg.Type != raftpb.MsgVoteResp || msg.Term != v.term {
				continue
			}
			if msg.Reject {
				return abort("vote_refused")
			}
			c.res.Log.Logf("%d adversary2: n%d grants; delivered", c.step, v.b)
			c.deliverNow(i)
			v.phase = 3
			return true
		}
		time.Sleep(1003 * time.Microsecond)
		return true
	case 3:
		v.hBefore = 0
		for _, n := range c.nodes {
			if n.lastDelivered > v.hBefore {
				v.hBefore = n.lastDelivered
			}
		}
		c.res.Log.Logf("%d adversary2: n%d crashes right after its grant; n%d (leader of term %d by that vote) is cut off", c.step, v.b, v.a, v.term)
		c.res.Count("adversary_vote_crash_fired")
		c.crash(c.nodes[v.b-1])
		for _, n := range c.nodes {
			if n.id != v.a {
				c.net.cut[[2]uint64{v.a, n.id}] = true
				c.net.cut[[2]uint64{n.id, v.a}] = true
			}
		}
		c.lastFaultStep = c.step
		v.phase = 4
		return true
	case 4:
		for _, id := range []uint64{v.b, v.x} {
			if n := c.nodes[id-1]; !n.alive {
				if err := c.startNode(n); err != nil {
					c.vio("restart-failed", "", "node %d cannot restart from its own storage: %v", id, err)
				}
				c.res.Count("fault_restart")
			}
		}
		c.res.Log.Logf("%d adversary2: n%d and n%d restart; n%d stays cut off", c.step, v.b, v.x, v.a)
		v.phase, v.since = 5, c.step
		return true
	case 5:
		progressed := c.nodes[v.b-1].lastDelivered > v.hBefore || c.nodes[v.x-1].lastDelivered > v.hBefore
		if progressed || c.step > v.since+400 {
			for _, n := range c.nodes {
				if n.id != v.a {
					delete(c.net.cut, [2]uint64{v.a, n.id})
					delete(c.net.cut, [2]uint64{n.id, v.a})
				}
			}
			if progressed {
				c.res.Count("adversary_vote_crash_healed_after_progress")
			}
			c.res.Log.Logf("%d adversary2: n%d is connected again", c.step, v.a)
			v.phase = 9
		}
		return false
	}
	return false
}
