// Package ordersim runs clusters of the real ordering nodes (etcd-raft or solo: raft core, WAL,
// snapshotter, applied-index db, mempool, tx cache, block syncer) inside one testing/synctest
// bubble (fake clock) on a simulated network and checks C20 on the recorded delivery history.
package ordersim

import (
	"crypto/sha256"
	"encoding/hex"
	"encoding/json"
	"fmt"
	"io"
	"math/rand"
	"os"
	"path/filepath"
	"sort"
	"sync"
	"sync/atomic"
	"testing"
	"testing/synctest"
	"time"

	"github.com/coreos/etcd/raft/raftpb"
	"github.com/coreos/etcd/wal"
	"github.com/ethereum/go-ethereum/event"
	"github.com/libp2p/go-libp2p-core/peer"
	"github.com/meshplus/bitxhub-core/order"
	peer_mgr "github.com/meshplus/bitxhub-core/peer-mgr"
	"github.com/meshplus/bitxhub-kit/types"
	"github.com/meshplus/bitxhub-model/pb"
	"github.com/meshplus/bitxhub/pkg/order/etcdraft"
	raftproto "github.com/meshplus/bitxhub/pkg/order/etcdraft/proto"
	"github.com/meshplus/bitxhub/pkg/order/solo"
	"github.com/meshplus/bitxhub/pkg/order/syncer"
	"github.com/meshplus/bitxhub/verif/sim"
	"github.com/sirupsen/logrus"
)

var quietLogger = func() logrus.FieldLogger {
	l := logrus.New()
	l.SetOutput(io.Discard)
	l.SetLevel(logrus.PanicLevel)
	return l
}()

// ---------------------------------------------------------------------------------------------
// configuration and plan

type OConfig struct {
	Kind       string `json:"kind"` // raft | solo | sync
	Nodes      int    `json:"nodes"`
	TickMs     int    `json:"tick_ms"`
	Election   int    `json:"election"`
	BatchSize  int    `json:"batch_size"`
	BatchMs    int    `json:"batch_ms"`
	SnapCount  int    `json:"snap_count"`
	SyncBlocks int    `json:"sync_blocks"`
	Timed      bool   `json:"timed"`
	Accounts   int    `json:"accounts"`
	Steps      int    `json:"steps"`
	PDrop      int    `json:"p_drop"`  // per mille
	PDup       int    `json:"p_dup"`   // per mille
	PCrash     int    `json:"p_crash"` // per mille per step
	PPartition int    `json:"p_partition"`
	QuietSteps int    `json:"quiet_steps"`          // trailing steps without faults (progress diagnostic)
	AckCrash   bool   `json:"ack_crash,omitempty"`  // biased fault schedule "a follower acknowledges, the leader commits, the follower crashes before it learns the commit index, the leader is cut off" (adversary.go)
	VoteCrash  bool   `json:"vote_crash,omitempty"` // biased fault schedule "a replica grants its vote, the candidate becomes leader on it, the voter crashes before it stores anything else" (adversary2.go)
	// sync mode
	Begin, End uint64
	PFail      int `json:"p_fail"`
}

func Generate(prop string, r *sim.Rand, tier string) *sim.Plan {
	cfg := OConfig{Kind: "raft", Nodes: []int{1, 3, 3, 3, 4, 5}[r.Intn(6)], TickMs: []int{50, 100, 200}[r.Intn(3)], Election: r.Range(5, 15),
		BatchSize: r.Range(1, 8), BatchMs: []int{100, 300, 500}[r.Intn(3)], SnapCount: r.Range(3, 20), SyncBlocks: r.Range(1, 7),
		Timed: r.Chance(0.2), Accounts: r.Range(1, 4), Steps: r.Range(600, 2500), QuietSteps: 500}
	switch r.Intn(10) {
	case 0:
		cfg.Kind = "solo"
		cfg.Nodes = 1
	case 1, 2:
		cfg.Kind = "sync"
		cfg.SyncBlocks = r.Range(1, 7)
		cfg.Begin = uint64(r.Range(1, 30))
		cfg.End = cfg.Begin + uint64(r.Intn(40))
		if r.Chance(0.1) {
			cfg.End = cfg.Begin
		}
		cfg.PFail = []int{0, 100, 300}[r.Intn(3)]
	}
	if tier == "thorough" {
		cfg.Steps = r.Range(600, 6000)
	}
	// swarm: which fault kinds are on
	if r.Chance(0.7) {
		cfg.PDrop = []int{5, 20, 80, 200}[r.Intn(4)]
	}
	if r.Chance(0.5) {
		cfg.PDup = []int{5, 30, 100}[r.Intn(3)]
	}
	if r.Chance(0.6) {
		cfg.PCrash = []int{1, 3, 8}[r.Intn(3)]
	}
	if r.Chance(0.5) {
		cfg.PPartition = []int{1, 3, 6}[r.Intn(3)]
	}
	cfg.AckCrash = cfg.Kind == "raft" && cfg.Nodes == 3 && r.Chance(0.35)
	cfg.VoteCrash = cfg.Kind == "raft" && cfg.Nodes == 3 && !cfg.AckCrash && r.Chance(0.45)
	return &sim.Plan{Config: sim.MustJSON(cfg)}
}

// tape: the sequence of small integers the driver consumed; any tape is executable, a short tape is
// continued from the PRNG seeded with the plan's seed (recording), so replay is a pure function
// of the recorded tape.
type tape struct {
	replay bool
	rec    []json.RawMessage
	in     []int
	pos    int
	rng    *sim.Rand
}

func (t *tape) choice(n int) int {
	if n <= 1 {
		n = 1
	}
	var v int
	if t.pos < len(t.in) {
		v = t.in[t.pos] % n
		if v < 0 {
			v = -v
		}
	} else if t.replay {
		v = 0 // a recorded tape that ran out is padded with the neutral choice
	} else {
		v = t.rng.Intn(n)
	}
	t.pos++
	t.rec = append(t.rec, json.RawMessage(fmt.Sprint(v)))
	return v
}

func (t *tape) permille(p int) bool {
	if p <= 0 {
		return false
	}
	return t.choice(1000) < p
}

// ---------------------------------------------------------------------------------------------
// simulated network

type netMsg struct {
	from, to uint64
	data     []byte
	key      string
}

type simNet struct {
	mu      sync.Mutex
	outbox  []netMsg
	nodes   map[uint64]*onode
	cut     map[[2]uint64]bool // unreachable directed links
	rpcSeq  uint64
	pFail   int
	seed    uint64
	syncLog []syncReq
	stats   map[string]int64
}

type syncReq struct {
	node       uint64
	peer       uint64
	begin, end uint64
	ok         bool
}

type simPeer struct {
	net *simNet
	id  uint64
	n   int
}

var _ peer_mgr.OrderPeerManager = (*simPeer)(nil)

func (p *simPeer) Start() error { return nil }
func (p *simPeer) Stop() error  { return nil }
func (p *simPeer) AsyncSend(to peer_mgr.KeyType, m *pb.Message) error {
	id, ok := to.(uint64)
	if !ok {
		return fmt.Errorf("bad peer id")
	}
	h := sha256.Sum256(m.Data)
	p.net.mu.Lock()
	p.net.outbox = append(p.net.outbox, netMsg{from: p.id, to: id, data: m.Data, key: fmt.Sprintf("%03d>%03d:%x", p.id, id, h[:8])})
	p.net.mu.Unlock()
	return nil
}
func (p *simPeer) Broadcast(m *pb.Message) error {
	for i := 1; i <= p.n; i++ {
		if uint64(i) != p.id {
			_ = p.AsyncSend(uint64(i), m)
		}
	}
	return nil
}

// Send is the synchronous RPC used by the block syncer.
func (p *simPeer) Send(to peer_mgr.KeyType, m *pb.Message) (*pb.Message, error) {
	id, _ := to.(uint64)
	net := p.net
	seq := atomic.AddUint64(&net.rpcSeq, 1)
	if m.Type != pb.Message_GET_BLOCKS {
		return nil, fmt.Errorf("unsupported rpc")
	}
	req := &pb.GetBlocksRequest{}
	if err := req.Unmarshal(m.Data); err != nil {
		return nil, err
	}
	rec := syncReq{node: p.id, peer: id, begin: req.Start, end: req.End}
	// deterministic fault decision: a function of (run seed, rpc sequence number)
	x := sim.Derive(net.seed, "rpc", seq)
	fail := net.pFail > 0 && int(x%1000) < net.pFail
	net.mu.Lock()
	target := net.nodes[id]
	cut := net.cut[[2]uint64{p.id, id}] || net.cut[[2]uint64{id, p.id}]
	net.mu.Unlock()
	var blocks []*pb.Block
	if !fail && !cut && target != nil && target.alive {
		target.mu.Lock()
		for h := req.Start; h <= req.End; h++ {
			if h >= 1 && h <= uint64(len(target.chain)) {
				blocks = append(blocks, target.chain[h-1].toBlock())
			}
		}
		target.mu.Unlock()
		if uint64(len(blocks)) != req.End-req.Start+1 {
			fail = true
		}
	} else {
		fail = true
	}
	rec.ok = !fail
	net.mu.Lock()
	net.syncLog = append(net.syncLog, rec)
	net.stats["sync_rpcs"]++
	if fail {
		net.stats["fault_sync_rpc_failed"]++
	}
	net.mu.Unlock()
	if fail {
		return nil, fmt.Errorf("peer %d unreachable", id)
	}
	resp := &pb.GetBlocksResponse{Blocks: blocks}
	data, err := resp.Marshal()
	if err != nil {
		return nil, err
	}
	return &pb.Message{Type: pb.Message_GET_BLOCKS_ACK, Data: data}, nil
}
func (p *simPeer) CountConnectedPeers() uint64      { return uint64(p.n - 1) }
func (p *simPeer) Peers() map[string]*peer.AddrInfo { return nil }
func (p *simPeer) SubscribeOrderMessage(ch chan<- peer_mgr.OrderMessageEvent) event.Subscription {
	return nil
}
func (p *simPeer) AddNode(uint64, *pb.VpInfo)                    {}
func (p *simPeer) DelNode(uint64)                                {}
func (p *simPeer) UpdateRouter(map[uint64]*pb.VpInfo, bool) bool { return false }
func (p *simPeer) Disconnect(map[uint64]*pb.VpInfo)              {}
func (p *simPeer) OrderPeers() map[uint64]*pb.VpInfo             { return nil }
func (p *simPeer) OtherPeers() map[uint64]*peer.AddrInfo {
	m := map[uint64]*peer.AddrInfo{}
	for i := 1; i <= p.n; i++ {
		if uint64(i) != p.id {
			m[uint64(i)] = &peer.AddrInfo{}
		}
	}
	return m
}

// ---------------------------------------------------------------------------------------------
// nodes and the stub executor

type oblock struct {
	height uint64
	ts     int64
	txs    []string
	accts  []string
	nonces []uint64
	extra  string // Block.Extra as handed to the executor (the executor reads it: a non-empty value makes it skip proof verification)
}

func (b *oblock) sig() string {
	return fmt.Sprintf("%d|%d|%v|extra=%q", b.height, b.ts, b.txs, b.extra)
}
func (b *oblock) toBlock() *pb.Block {
	blk := &pb.Block{BlockHeader: &pb.BlockHeader{Number: b.height, Timestamp: b.ts, Version: []byte("1.0.0")}, Transactions: &pb.Transactions{}}
	for i, h := range b.txs {
		tx := &pb.BxhTransaction{From: types.NewAddressByStr(b.accts[i]), To: types.NewAddressByStr(b.accts[i]), Nonce: b.nonces[i], Payload: []byte(h)}
		tx.TransactionHash = types.NewHashByStr(h)
		blk.Transactions.Transactions = append(blk.Transactions.Transactions, tx)
	}
	blk.BlockHash = blk.Hash()
	return blk
}

func fromCommit(ev *pb.CommitEvent) *oblock {
	b := &oblock{height: ev.Block.BlockHeader.Number, ts: ev.Block.BlockHeader.Timestamp, extra: string(ev.Block.Extra)}
	for _, tx := range ev.Block.Transactions.Transactions {
		b.txs = append(b.txs, tx.GetHash().String())
		b.accts = append(b.accts, tx.GetFrom().String())
		b.nonces = append(b.nonces, tx.GetNonce())
	}
	return b
}

type onode struct {
	id               uint64
	root             string
	inc              int
	ord              order.Order
	alive            bool
	mu               sync.Mutex
	chain            []*oblock         // executed and durable
	delivered        []*pb.CommitEvent // delivered by the ordering service, not yet executed
	unreported       []*oblock         // executed, ReportState not yet called
	lastDelivered    uint64            // within the current incarnation
	startApplied     uint64
	prevMaxDelivered uint64           // highest height handed to an earlier incarnation of this node
	reported         map[uint64]int64 // height -> fake time at which ReportState was issued
	deliveredAt      map[uint64]int64 // height -> fake time at which consensus first handed the height to this node (any incarnation)
	snapAtStart      uint64           // raft: index of the snapshot the log of this incarnation starts from
	recordedAtStart  uint64           // raft: applied index recorded on disk when this incarnation started
	replayChecked    bool
	// raft: what the node's own bookkeeping said at the last quiescent point (see sampleLeaders)
	pastHoldOff bool   // it leads and the hold-off that follows its election is over
	lastSeq     uint64 // height its pool gave to the batch it cut last
	seqReset    bool   // past the hold-off, that height went down: the pool's batch sequence was set back
}

func (n *onode) nonceOf(addr string) uint64 {
	n.mu.Lock()
	defer n.mu.Unlock()
	c := uint64(0)
	for _, b := range n.chain {
		for i, a := range b.accts {
			if a == addr && b.nonces[i]+1 > c {
				c = b.nonces[i] + 1
			}
		}
	}
	return c
}

func scratchDir() string {
	d := os.Getenv("VERIF_SCRATCH")
	if d == "" {
		d = os.TempDir()
	}
	return d
}

var dirSeq int64

func writeOrderToml(dir string, cfg OConfig) error {
	// periods are de-aligned (odd microsecond fractions) so that two timers of one node practically
	// never share a deadline: Go's select picks at random among several ready channels, which would
	// make a run depend on more than its tape
	us := func(ms int, frac int) string { return fmt.Sprintf("%d.%03dms", ms, frac) }
	s := fmt.Sprintf(`[timed_gen_block]
enable = %v
block_timeout = "2000.303ms"

[raft]
batch_timeout               = "%s"
check_interval              = "180000.611ms"
check_alive                 = "780000.917ms"
tick_timeout                = "%s"
election_tick               = %d
heartbeat_tick              = 1
max_size_per_msg            = 1048576
max_inflight_msgs           = 500
check_quorum                = true
pre_vote                    = true
disable_proposal_forwarding = true

    [raft.mempool]
        batch_size          = %d
        pool_size           = 50000
        tx_slice_size       = 1
        tx_slice_timeout    = "100.709ms"

    [raft.syncer]
        sync_blocks = %d
        snapshot_count = %d

[solo]
batch_timeout = "%s"

   [solo.mempool]
        batch_size          = %d
        pool_size           = 50000
        tx_slice_size       = 1
        tx_slice_timeout    = "100.709ms"
`, cfg.Timed, us(cfg.BatchMs, 307), us(cfg.TickMs, 19), cfg.Election, cfg.BatchSize, cfg.SyncBlocks, cfg.SnapCount, us(cfg.BatchMs, 307), cfg.BatchSize)
	return os.WriteFile(filepath.Join(dir, "order.toml"), []byte(s), 0644)
}

func copyDir(src, dst string) error {
	return filepath.Walk(src, func(p string, info os.FileInfo, err error) error {
		if err != nil {
			return err
		}
		rel, _ := filepath.Rel(src, p)
		t := filepath.Join(dst, rel)
		if info.IsDir() {
			return os.MkdirAll(t, 0755)
		}
		b, err := os.ReadFile(p)
		if err != nil {
			return err
		}
		return os.WriteFile(t, b, 0644)
	})
}

type cluster struct {
	cfg       OConfig
	net       *simNet
	nodes     []*onode
	res       *sim.Result
	tp        *tape
	base      string
	accts     []*types.Address
	nextNonce []uint64
	inflight  []netMsg
	// history
	agreed          map[uint64]string    // height -> block signature first delivered anywhere
	txHeight        map[string]uint64    // tx hash -> height in the agreed chain
	chainNonce      map[string]uint64    // account -> next nonce expected in the agreed chain
	seenEntry       map[[3]uint64]bool   // (leader, term, index) of log entries already seen in append messages
	lastProposed    map[[2]uint64]uint64 // (leader, term) -> height of the last batch it proposed
	lastProposedIdx map[[2]uint64]uint64 // (leader, term) -> log index of that batch
	submitted       int
	lateTx          map[string]bool // transactions whose broadcast reached some pool only after they were committed
	lastFaultStep   int
	step            int
	adv             *ackCrash
	adv2            *voteCrash
	logEntries      map[[3]uint64]*logEntry // (leader, message term, index) -> batch the leader holds at that index during that term
	leaderCommit    map[[2]uint64]uint64    // (leader, message term) -> highest commit index that leader announced in that term
}

// logEntry: a batch as a leader replicates it (read off its append messages)
type logEntry struct {
	entryTerm  uint64
	height     uint64
	sig        string // what the delivered block of that height must look like
	ntx        int
	seenStep   int  // driver step at which the entry was first seen in an append message
	afterReset bool // its leader, past the hold-off, had set its batch sequence back before this entry was first seen
}

func (c *cluster) vio(oracle, discr, f string, a ...any) {
	c.res.Violate("C20", oracle, c.step, discr, f, a...)
}

func (c *cluster) startNode(n *onode) error {
	vp := map[uint64]*pb.VpInfo{}
	for i := 1; i <= c.cfg.Nodes; i++ {
		vp[uint64(i)] = &pb.VpInfo{Id: uint64(i), Pid: fmt.Sprintf("pid%d", i), Account: fmt.Sprintf("0x%040d", i)}
	}
	n.mu.Lock()
	applied := uint64(len(n.chain))
	n.mu.Unlock()
	opts := []order.Option{
		order.WithRepoRoot(n.root), order.WithStoragePath(filepath.Join(n.root, "storage")), order.WithID(n.id), order.WithNodes(vp),
		order.WithPeerManager(&simPeer{net: c.net, id: n.id, n: c.cfg.Nodes}), order.WithLogger(quietLogger), order.WithApplied(applied),
		order.WithGetAccountNonceFunc(func(a *types.Address) uint64 { return n.nonceOf(a.String()) }),
		order.WithGetChainMetaFunc(func() *pb.ChainMeta {
			n.mu.Lock()
			defer n.mu.Unlock()
			return &pb.ChainMeta{Height: uint64(len(n.chain)), BlockHash: &types.Hash{}}
		}),
	}
	var ord order.Order
	var err error
	if c.cfg.Kind == "solo" {
		ord, err = solo.NewNode(opts...)
	} else {
		ord, err = etcdraft.NewNode(opts...)
	}
	if err != nil {
		return err
	}
	n.ord = ord
	n.alive = true
	n.startApplied = applied
	n.replayChecked = false
	if c.cfg.Kind != "solo" {
		n.snapAtStart, n.recordedAtStart = etcdraft.VerifRestartState(ord)
	}
	if n.lastDelivered > n.prevMaxDelivered {
		n.prevMaxDelivered = n.lastDelivered
	}
	if n.reported == nil {
		n.reported = map[uint64]int64{}
	}
	n.lastDelivered = applied
	n.delivered = nil
	n.unreported = nil
	n.inc++
	if err := ord.Start(); err != nil {
		return err
	}
	return nil
}

func (c *cluster) crash(n *onode) {
	n.ord.Stop()
	n.alive = false
	synctest.Wait() // the run loop of the dead incarnation has exited
	if c.cfg.Kind != "solo" {
		etcdraft.VerifClose(n.ord)
	}
	c.res.Count("fault_crash")
	// undelivered / unexecuted commit events of the dead incarnation are lost with the process
	if c.cfg.Kind == "solo" {
		// solo keeps no log: a block that was handed over but not executed dies with the process and
		// the next incarnation legitimately fills that height with other transactions
		n.mu.Lock()
		exec := uint64(len(n.chain))
		n.mu.Unlock()
		for h := range c.agreed {
			if h > exec {
				delete(c.agreed, h)
			}
		}
		for tx, h := range c.txHeight {
			if h > exec {
				delete(c.txHeight, tx)
			}
		}
	}
	n.delivered = nil
	n.unreported = nil
	// messages to and from the dead incarnation vanish
	var keep []netMsg
	for _, m := range c.inflight {
		if m.to != n.id && m.from != n.id {
			keep = append(keep, m)
		}
	}
	c.inflight = keep
	// the next incarnation opens a copy of the directory (the dead one still holds file locks)
	dst := fmt.Sprintf("%s-inc%d", filepath.Join(c.base, fmt.Sprintf("n%d", n.id)), n.inc+1)
	if err := copyDir(n.root, dst); err == nil {
		_ = os.RemoveAll(n.root) // unlinking is fine while the dead incarnation keeps its descriptors
		n.root = dst
	}
}

// drain moves everything the nodes produced since the last step into the driver's hands.
func (c *cluster) drain() {
	c.net.mu.Lock()
	out := c.net.outbox
	c.net.outbox = nil
	c.net.mu.Unlock()
	// canonical order: arrival order inside the outbox depends on goroutine scheduling
	sort.SliceStable(out, func(i, j int) bool { return out[i].key < out[j].key })
	c.sampleLeaders()
	for _, m := range out {
		c.observeProposals(m)
		to := c.nodes[m.to-1]
		from := c.nodes[m.from-1]
		if !to.alive || !from.alive {
			continue
		}
		c.inflight = append(c.inflight, m)
	}
	for _, n := range c.nodes {
		if !n.alive {
			continue
		}
		for {
			select {
			case ev := <-n.ord.Commit():
				if ev == nil {
					continue
				}
				c.onDelivery(n, ev)
				continue
			default:
			}
			break
		}
		// first quiescent point of a restarted incarnation: raft has handed out, without any help from the
		// network, every entry below the commit index it had persisted
		c.onReplayFinished(n)
	}
}

// sampleLeaders reads, at a quiescent point, what every raft node's own bookkeeping says about its leadership. A node
// that has just been elected sets its pool's batch sequence back to the executed height on every Ready until its
// in-flight entries are applied (the hold-off); once that is over, and for as long as it leads, nothing in the node
// sets the sequence back again. A sequence that goes down past the hold-off therefore tells the two ways apart in
// which a leader can come to propose two batches for one height (checkCommittedEntries).
func (c *cluster) sampleLeaders() {
	if c.cfg.Kind != "raft" {
		return
	}
	for _, n := range c.nodes {
		if !n.alive || n.ord == nil {
			n.pastHoldOff, n.seqReset = false, false
			continue
		}
		leader, holdOff, seq := etcdraft.VerifLeaderState(n.ord)
		switch {
		case !leader || holdOff:
			n.pastHoldOff, n.seqReset = false, false
		case !n.pastHoldOff:
			n.pastHoldOff = true
		case seq < n.lastSeq:
			n.seqReset = true
			c.res.Count("probe_batch_sequence_set_back_past_the_hold_off")
		}
		n.lastSeq = seq
	}
}

// observeProposals reads the batches a leader proposes off its append messages (reach probe and diagnostics).
func (c *cluster) observeProposals(m netMsg) {
	rm := &raftproto.RaftMessage{}
	if rm.Unmarshal(m.data) != nil || rm.Type != raftproto.RaftMessage_CONSENSUS {
		return
	}
	msg := &raftpb.Message{}
	if msg.Unmarshal(rm.Data) != nil {
		return
	}
	if msg.Type == raftpb.MsgApp || msg.Type == raftpb.MsgHeartbeat {
		// the sender is the leader of msg.Term; Commit is its commit index (a heartbeat caps it at what the follower has)
		if c.leaderCommit == nil {
			c.leaderCommit, c.logEntries = map[[2]uint64]uint64{}, map[[3]uint64]*logEntry{}
		}
		k := [2]uint64{m.from, msg.Term}
		if msg.Commit > c.leaderCommit[k] {
			c.leaderCommit[k] = msg.Commit
		}
	}
	if msg.Type != raftpb.MsgApp {
		return
	}
	for _, e := range msg.Entries {
		if e.Type == raftpb.EntryNormal && len(e.Data) > 0 {
			rb := &raftproto.RequestBatch{}
			if rb.Unmarshal(e.Data) == nil && rb.TxList != nil {
				ob := &oblock{height: rb.Height, ts: rb.Timestamp}
				for _, tx := range rb.TxList.Transactions {
					ob.txs = append(ob.txs, tx.GetHash().String())
				}
				if _, seen := c.logEntries[[3]uint64{m.from, msg.Term, e.Index}]; !seen {
					c.logEntries[[3]uint64{m.from, msg.Term, e.Index}] = &logEntry{entryTerm: e.Term, height: rb.Height, sig: ob.sig(), ntx: len(ob.txs), seenStep: c.step, afterReset: c.nodes[m.from-1].seqReset}
				}
			}
		}
	}
	for _, e := range msg.Entries {
		if e.Type != raftpb.EntryNormal || len(e.Data) == 0 {
			continue
		}
		key := [3]uint64{m.from, e.Term, e.Index}
		if c.seenEntry[key] {
			continue
		}
		c.seenEntry[key] = true
		if e.Term != msg.Term {
			continue // an entry of an earlier term that the leader merely replicates
		}
		rb := &raftproto.RequestBatch{}
		if rb.Unmarshal(e.Data) != nil {
			continue
		}
		lt := [2]uint64{m.from, e.Term}
		if last, ok := c.lastProposed[lt]; ok && e.Index > c.lastProposedIdx[lt] {
			if rb.Height != last+1 {
				cls := "gap"
				if rb.Height <= last {
					cls = "repeat"
				}
				// a diagnostic only: a freshly elected leader resets its sequence to the executed height on every Ready
				// until the entries in flight are applied, so repeats and gaps inside a term happen by design
				c.res.Count("diag_leader_batch_sequence_" + cls + "_within_a_term")
			}
		}
		if e.Index > c.lastProposedIdx[lt] {
			c.lastProposed[lt], c.lastProposedIdx[lt] = rb.Height, e.Index
			c.res.Count("probe_leader_proposals_observed")
		}
	}
}

// onReplayFinished is called at the first quiescent point after a restart. Entries and the commit index are
// stored before committed entries are published, so every block an earlier incarnation was handed lies
// below the persisted commit index and raft hands it out again at start-up without the network; the ones
// above the executed height must therefore have reached the executor again by now:
// "no entry that was not executed is skipped".
func (c *cluster) onReplayFinished(n *onode) {
	if n.replayChecked || n.inc <= 1 || c.cfg.Kind == "solo" {
		return
	}
	n.replayChecked = true
	c.res.Count("probe_replay_finished_after_restart")
	if n.prevMaxDelivered <= n.startApplied || n.prevMaxDelivered-n.startApplied > 900 {
		return
	}
	c.res.Count("probe_restart_with_unexecuted_entries_in_log")
	if n.lastDelivered >= n.prevMaxDelivered {
		return
	}
	discr := ""
	if n.snapAtStart > n.recordedAtStart {
		// known family: the snapshot/compaction point follows the minted, not the executed height
		discr = "log-compacted-beyond-the-executed-height"
	}
	c.vio("unexecuted-entries-skipped-after-restart", discr, "node %d incarnation %d restarted at executed height %d; earlier incarnations had been handed heights up to %d, but after replaying its whole log it was handed only up to %d (snapshot index %d, recorded applied index %d at start)",
		n.id, n.inc, n.startApplied, n.prevMaxDelivered, n.lastDelivered, n.snapAtStart, n.recordedAtStart)
}

// onDelivery applies the C20 history oracle to one block handed to the executor.
func (c *cluster) onDelivery(n *onode, ev *pb.CommitEvent) {
	b := fromCommit(ev)
	c.res.Count("deliveries")
	c.res.Log.Logf("%d deliver n%d.%d h=%d txs=%d", c.step, n.id, n.inc, b.height, len(b.txs))
	if b.height != n.lastDelivered+1 {
		cls := "gap"
		if b.height <= n.lastDelivered {
			cls = "repeat"
		}
		c.vio("height-order", cls, "node %d (incarnation %d, started at executed height %d) was handed height %d after height %d", n.id, n.inc, n.startApplied, b.height, n.lastDelivered)
	}
	n.lastDelivered = b.height
	if n.deliveredAt == nil {
		n.deliveredAt = map[uint64]int64{}
	}
	if n.deliveredAt[b.height] == 0 {
		n.deliveredAt[b.height] = time.Now().UnixNano()
	}
	if s, ok := c.agreed[b.height]; ok {
		if s != b.sig() {
			discr := ""
			if n.inc > 1 && b.height > n.startApplied && b.height <= n.prevMaxDelivered {
				// known family: the node's own snapshot/compaction point follows the minted, not the executed
				// height, so blocks handed over but not executed before the crash are never replayed
				discr = "restarted-node-refills-heights-handed-over-but-not-executed-before-its-crash"
			}
			c.vio("content-disagreement", discr, "height %d was delivered with different content on different replicas (node %d incarnation %d): %s vs %s", b.height, n.id, n.inc, short(s), short(b.sig()))
		}
	} else {
		c.agreed[b.height] = b.sig()
		for _, h := range b.txs {
			if prev, dup := c.txHeight[h]; dup && prev != b.height {
				discr := ""
				for _, x := range c.nodes {
					// the batch carries the (fake) time at which its leader generated it
					// (delivered to that node before the second batch was generated: a batch cut while the first block was
					// still an uncommitted entry of a deposed leader is what the new leader's hold-off exists to prevent)
					// (whether that node is still up when the second block is delivered does not matter)
					if at, ok := x.reported[prev]; (!ok || at >= b.ts) && x.deliveredAt[prev] != 0 && x.deliveredAt[prev] <= b.ts {
						// known family: a (new) leader batches a transaction of a block that consensus has
						// delivered but whose execution has not been reported to its pool yet
						discr = "first-block-not-yet-reported-to-every-pool"
					}
				}
				if discr == "" && c.lateTx[h] {
					// known family (see C18/C19 stale-committed-nonce): a pool that did not hold the transaction when
					// its block was committed accepts the late broadcast as new and, once leader, batches it again
					discr = "broadcast-reached-a-pool-after-the-transaction-was-committed"
				}
				if discr == "" {
					for _, x := range c.nodes {
						at, ok := x.reported[prev]
						for hh, at2 := range x.reported {
							if ok && hh > prev && at2 <= at {
								// known family: production reports executed blocks in bare goroutines; when the report of a
								// later block overtakes it, the node drops the earlier one (its applied-index entry is
								// already deleted) and its pool never learns that those transactions were committed
								discr = "commit-notification-overtaken-by-a-later-one"
							}
						}
					}
				}
				ctx := fmt.Sprintf("second batch generated at t=%d;", b.ts)
				for _, x := range c.nodes {
					ctx += fmt.Sprintf(" n%d.%d alive=%v first-delivered=%d reported=%d;", x.id, x.inc, x.alive, x.deliveredAt[prev], x.reported[prev])
				}
				c.vio("tx-in-two-blocks", discr, "transaction %s is included in delivered blocks %d and %d (%s)", h[:10], prev, b.height, ctx)
			}
			c.txHeight[h] = b.height
		}
		// per account the agreed chain carries consecutive nonces (C18 seen end to end): a gap means that a batch was
		// lost although its successors were proposed
		for i, a := range b.accts {
			exp, ok := c.chainNonce[a]
			if !ok {
				exp = 0
			}
			switch {
			case b.nonces[i] == exp:
				c.chainNonce[a] = exp + 1
			case b.nonces[i] > exp:
				c.res.Count("diag_nonce_gap_in_agreed_chain")
				if os.Getenv("VERIF_GAP_VIO") != "" {
					c.vio("nonce-gap", "", "account %s: nonce %d delivered at height %d, the agreed chain has its nonces up to %d only", a[:8], b.nonces[i], b.height, exp)
				}
				if traceSteps {
					c.res.Log.Logf("%d nonce gap: account %s nonce %d at height %d, expected %d", c.step, a[:8], b.nonces[i], b.height, exp)
				}
				c.chainNonce[a] = b.nonces[i] + 1
			default:
				c.res.Count("diag_nonce_repeat_in_agreed_chain")
			}
		}
		seen := map[string]bool{}
		for _, h := range b.txs {
			if seen[h] {
				c.vio("tx-twice-in-block", "", "transaction %s appears twice in delivered block %d", h[:10], b.height)
			}
			seen[h] = true
		}
	}
	n.delivered = append(n.delivered, ev)
}

func short(s string) string {
	if len(s) > 90 {
		return s[:90] + "…"
	}
	return s
}

// execStep: the stub executor of node n executes (and durably persists) its next delivered block.
func (c *cluster) execStep(n *onode) {
	if len(n.delivered) == 0 {
		return
	}
	ev := n.delivered[0]
	n.delivered = n.delivered[1:]
	b := fromCommit(ev)
	n.mu.Lock()
	if b.height == uint64(len(n.chain))+1 {
		n.chain = append(n.chain, b)
		n.unreported = append(n.unreported, b)
	}
	n.mu.Unlock()
	c.res.Count("executions")
}

// reportStep: ReportState for one executed block, possibly out of order (production calls it in a bare goroutine per block).
func (c *cluster) reportStep(n *onode, pick int) {
	if len(n.unreported) == 0 {
		return
	}
	i := pick % len(n.unreported)
	if i > 0 {
		c.res.Count("fault_report_state_out_of_order")
	}
	b := n.unreported[i]
	n.unreported = append(n.unreported[:i], n.unreported[i+1:]...)
	var hs []*types.Hash
	for _, h := range b.txs {
		hs = append(hs, types.NewHashByStr(h))
	}
	ord := n.ord
	n.reported[b.height] = time.Now().UnixNano()
	go ord.ReportState(b.height, &types.Hash{}, hs)
}

func (c *cluster) submit(n *onode) {
	a := c.tp.choice(len(c.accts))
	nonce := c.nextNonce[a]
	off := c.tp.choice(10)
	switch off {
	case 0:
		if nonce > 0 {
			nonce-- // stale / duplicate
		}
	case 1:
		nonce++ // gap
	default:
		c.nextNonce[a]++
	}
	tx := &pb.BxhTransaction{From: c.accts[a], To: c.accts[(a+1)%len(c.accts)], Nonce: nonce, Timestamp: time.Now().UnixNano(), Payload: []byte(fmt.Sprintf("p%d", c.submitted))}
	tx.TransactionHash = tx.Hash()
	c.submitted++
	c.res.Count("txs_submitted")
	ord := n.ord
	if err := ord.Ready(); err != nil {
		c.res.Count("txs_refused_no_leader")
		// the client sees the refusal and will reuse the nonce
		if off > 1 {
			c.nextNonce[a]--
		}
		return
	}
	go func() { _ = ord.Prepare(tx) }()
}

var traceSteps = os.Getenv("VERIF_OS_TRACE") != ""

func init() {
	// etcd preallocates 64 MB per WAL segment; on the tmpfs scratch that is real memory per node and
	// per crash copy. The variable is exported for exactly this purpose; small segments also make
	// segment rotation part of every longer run.
	wal.SegmentSizeBytes = 256 * 1024
}

func Execute(t *testing.T, prop string, p *sim.Plan, keep bool) (res *sim.Result) {
	res = sim.NewResult()
	res.Log.Keep = keep
	cfg := OConfig{}
	if err := json.Unmarshal(p.Config, &cfg); err != nil {
		res.Aborted = err.Error()
		return res
	}
	tp := &tape{rng: sim.NewRand(p.Seed ^ 0x5eed), replay: len(p.Steps) > 0}
	for _, raw := range p.Steps {
		var v int
		if json.Unmarshal(raw, &v) == nil {
			tp.in = append(tp.in, v)
		}
	}
	base := filepath.Join(scratchDir(), fmt.Sprintf("os-%d-%d", os.Getpid(), atomic.AddInt64(&dirSeq, 1)))
	defer os.RemoveAll(base)
	defer func() {
		if e := recover(); e != nil {
			msg := fmt.Sprint(e)
			if !containsAny(msg, "blocked goroutines remain", "deadlock") {
				res.Aborted = "driver panic: " + msg
			}
		}
		res.Tape = tp.rec
	}()
	rand.Seed(int64(p.Seed))
	reseedRaft(p.Seed)
	synctest.Test(t, func(t *testing.T) {
		if cfg.Kind == "sync" {
			runSync(cfg, p.Seed, res, base)
		} else {
			runCluster(cfg, p.Seed, res, tp, base)
		}
	})
	return res
}

func containsAny(s string, subs ...string) bool {
	for _, x := range subs {
		if len(x) > 0 && len(s) >= len(x) {
			for i := 0; i+len(x) <= len(s); i++ {
				if s[i:i+len(x)] == x {
					return true
				}
			}
		}
	}
	return false
}

func runCluster(cfg OConfig, seed uint64, res *sim.Result, tp *tape, base string) {
	if cfg.Nodes < 1 {
		cfg.Nodes = 1
	}
	if cfg.Accounts < 1 {
		cfg.Accounts = 1
	}
	c := &cluster{cfg: cfg, res: res, tp: tp, base: base, agreed: map[uint64]string{}, txHeight: map[string]uint64{}, lateTx: map[string]bool{}, chainNonce: map[string]uint64{}, seenEntry: map[[3]uint64]bool{}, lastProposed: map[[2]uint64]uint64{}, lastProposedIdx: map[[2]uint64]uint64{}}
	c.net = &simNet{nodes: map[uint64]*onode{}, cut: map[[2]uint64]bool{}, seed: seed, stats: map[string]int64{}, pFail: 100}
	for i := 0; i < cfg.Accounts; i++ {
		b := make([]byte, 20)
		b[0], b[19] = 0xC0+byte(i), byte(i+1)
		c.accts = append(c.accts, types.NewAddress(b))
		c.nextNonce = append(c.nextNonce, 0)
	}
	for i := 1; i <= cfg.Nodes; i++ {
		root := filepath.Join(base, fmt.Sprintf("n%d", i))
		if err := os.MkdirAll(root, 0755); err != nil {
			res.Aborted = err.Error()
			return
		}
		if err := writeOrderToml(root, cfg); err != nil {
			res.Aborted = err.Error()
			return
		}
		n := &onode{id: uint64(i), root: root}
		c.nodes = append(c.nodes, n)
		c.net.nodes[n.id] = n
	}
	for _, n := range c.nodes {
		if err := c.startNode(n); err != nil {
			res.Aborted = "start: " + err.Error()
			return
		}
		time.Sleep(time.Duration(n.id*137) * time.Microsecond) // staggered start: no two tickers share a deadline
	}
	if cfg.AckCrash && cfg.Kind == "raft" && cfg.Nodes == 3 {
		c.adv = &ackCrash{}
	}
	if cfg.VoteCrash && !cfg.AckCrash && cfg.Kind == "raft" && cfg.Nodes == 3 {
		c.adv2 = &voteCrash{}
	}
	t0 := time.Now()
	faultsUntil := cfg.Steps - cfg.QuietSteps
	for c.step = 0; c.step < cfg.Steps; c.step++ {
		synctest.Wait()
		c.drain()
		if len(res.Violations) > 0 {
			break
		}
		faults := c.step < faultsUntil
		if faults && c.advStep() {
			continue
		}
		if faults && c.adv2Step() {
			continue
		}
		if c.step == faultsUntil {
			// faults stop: heal, restart everything that is down
			for k := range c.net.cut {
				delete(c.net.cut, k)
			}
			for _, n := range c.nodes {
				if !n.alive {
					if err := c.startNode(n); err != nil {
						c.vio("restart-failed", "", "node %d cannot restart: %v", n.id, err)
					}
				}
			}
			res.Log.Logf("%d quiet phase begins", c.step)
		}
		// agenda
		kinds := []int{}
		w := []int{}
		add := func(k, weight int) { kinds = append(kinds, k); w = append(w, weight) }
		if len(c.inflight) > 0 {
			add(0, 60)
		}
		add(1, 12) // advance clock
		add(2, 8)  // submit tx
		add(3, 10) // executor step
		add(4, 6)  // report state
		if faults && cfg.Nodes > 1 {
			add(5, 0) // placeholder for crash/partition decisions drawn by permille below
		}
		tot := 0
		for _, x := range w {
			tot += x
		}
		r := tp.choice(tot)
		k := 0
		for i, x := range w {
			if r < x {
				k = kinds[i]
				break
			}
			r -= x
		}
		if traceSteps {
			res.Log.Logf("%d kind=%d t=%d inflight=%d", c.step, k, time.Since(t0).Microseconds(), len(c.inflight))
		}
		switch k {
		case 0:
			i := tp.choice(len(c.inflight))
			m := c.inflight[i]
			c.inflight = append(c.inflight[:i], c.inflight[i+1:]...)
			cut := c.net.cut[[2]uint64{m.from, m.to}]
			if faults && tp.permille(cfg.PDrop) {
				res.Count("fault_msg_dropped")
				break
			}
			if cut {
				res.Count("fault_msg_cut_by_partition")
				break
			}
			to := c.nodes[m.to-1]
			if !to.alive {
				break
			}
			if faults && tp.permille(cfg.PDup) {
				c.inflight = append(c.inflight, m)
				res.Count("fault_msg_duplicated")
			}
			res.Count("msgs_delivered")
			c.noteLateTx(m.data)
			if traceSteps {
				res.Log.Logf("%d msg %s (%d inflight)", c.step, m.key, len(c.inflight))
			}
			ord := to.ord
			data := m.data
			go func() { _ = ord.Step(data) }()
		case 1:
			d := []time.Duration{1003 * time.Microsecond, 10071 * time.Microsecond, 50311 * time.Microsecond, 200933 * time.Microsecond}[tp.choice(4)]
			time.Sleep(d)
		case 2:
			alive := c.aliveNodes()
			if len(alive) > 0 {
				c.submit(alive[tp.choice(len(alive))])
			}
		case 3:
			alive := c.aliveNodes()
			if len(alive) > 0 {
				c.execStep(alive[tp.choice(len(alive))])
			}
		case 4:
			alive := c.aliveNodes()
			if len(alive) > 0 {
				c.reportStep(alive[tp.choice(len(alive))], tp.choice(3))
			}
		}
		if faults {
			if tp.permille(cfg.PCrash) {
				n := c.nodes[tp.choice(len(c.nodes))]
				if n.alive {
					// state at the crash instant (abstract-state measure)
					res.State("crash", len(n.delivered) > 0, len(n.unreported) > 0, len(c.inflight) > 0, n.lastDelivered-uint64(len(n.chain)) > 0)
					res.Log.Logf("%d crash n%d (executed %d, delivered-unexecuted %d)", c.step, n.id, len(n.chain), len(n.delivered))
					c.crash(n)
					c.lastFaultStep = c.step
				} else {
					res.Log.Logf("%d restart n%d at executed height %d", c.step, n.id, len(n.chain))
					if err := c.startNode(n); err != nil {
						c.vio("restart-failed", "", "node %d cannot restart from its own storage: %v", n.id, err)
					}
					res.Count("fault_restart")
				}
			}
			if tp.permille(cfg.PPartition) {
				if len(c.net.cut) > 0 {
					for k := range c.net.cut {
						delete(c.net.cut, k)
					}
					res.Count("fault_heal")
					res.Log.Logf("%d heal", c.step)
				} else {
					iso := uint64(tp.choice(cfg.Nodes) + 1)
					for i := 1; i <= cfg.Nodes; i++ {
						if uint64(i) != iso {
							c.net.cut[[2]uint64{iso, uint64(i)}] = true
							if tp.choice(4) != 0 { // mostly symmetric, sometimes asymmetric
								c.net.cut[[2]uint64{uint64(i), iso}] = true
							}
						}
					}
					res.Count("fault_partition")
					res.Log.Logf("%d isolate n%d", c.step, iso)
					c.lastFaultStep = c.step
				}
			}
		}
	}
	// drain the executors so that the final chains can be compared
	synctest.Wait()
	c.drain()
	for _, n := range c.nodes {
		for len(n.delivered) > 0 {
			c.execStep(n)
		}
	}
	// every node's executed chain is a prefix of the agreed chain
	maxH := uint64(0)
	for _, n := range c.nodes {
		n.mu.Lock()
		for _, b := range n.chain {
			if s := c.agreed[b.height]; s != b.sig() && len(c.res.Violations) == 0 {
				c.vio("content-disagreement", "executed", "node %d executed at height %d a block that differs from the one delivered first", n.id, b.height)
			}
		}
		if uint64(len(n.chain)) > maxH {
			maxH = uint64(len(n.chain))
		}
		n.mu.Unlock()
	}
	c.checkCommittedEntries()
	// per account nonces in the agreed chain are consecutive (C18 end to end)
	// diagnostic only: bounded progress after the last fault
	committedTxs := len(c.txHeight)
	res.Add("diag_txs_committed", int64(committedTxs))
	res.Add("diag_heights_agreed", int64(len(c.agreed)))
	behind := 0
	for _, n := range c.nodes {
		if n.alive && uint64(len(n.chain)) < maxH {
			behind++
		}
	}
	res.Add("diag_live_nodes_behind_at_end", int64(behind))
	for k, v := range c.net.stats {
		res.Add(k, v)
	}
	c.checkSyncLog()
	for _, n := range c.nodes {
		if n.alive {
			n.ord.Stop()
		}
	}
	synctest.Wait()
	for _, n := range c.nodes {
		if n.alive && c.cfg.Kind != "solo" {
			etcdraft.VerifClose(n.ord)
		}
	}
	res.SimNanos = int64(time.Since(t0))
	res.Steps = c.step
	res.Log.Logf("end: simulated %v, msgs delivered %d, txs submitted %d (refused: %d), heights agreed %d", time.Since(t0), res.Counters["msgs_delivered"], res.Counters["txs_submitted"], res.Counters["txs_refused_no_leader"], len(c.agreed))
	res.Nontrivial = len(c.agreed) >= 2
	res.Shape = res.Log.Digest()
	res.State(cfg.Kind, cfg.Nodes, len(c.agreed) > 5, res.Counters["fault_crash"] > 0, res.Counters["fault_partition"] > 0)
}

func (c *cluster) aliveNodes() []*onode {
	var out []*onode
	for _, n := range c.nodes {
		if n.alive {
			out = append(out, n)
		}
	}
	return out
}

// checkSyncLog: within one sync session the successful range requests of a node partition the
// missing heights in ascending order without overlap or gap, and a failed range is retried as the
// same range.
func (c *cluster) checkSyncLog() {
	// In a cluster run the log of a node is a concatenation of synchronisation sessions whose boundaries the
	// driver cannot see (a new snapshot target, a restart with blocks received but not executed): a differing
	// retry or an overlap across two sessions is legitimate, so here these are diagnostics. The partition
	// oracle proper runs where one session is driven at a time (runSync).
	last := map[uint64]syncReq{}
	for _, r := range c.net.syncLog {
		prev, had := last[r.node]
		if had && !prev.ok {
			if r.begin != prev.begin || r.end != prev.end {
				c.res.Count("diag_sync_retry_with_another_range")
			}
		} else if had && prev.ok && r.begin <= prev.end && r.begin > prev.begin {
			c.res.Count("diag_sync_range_overlapping_the_previous_one")
		}
		if c.cfg.SyncBlocks > 0 && r.end-r.begin+1 > uint64(c.cfg.SyncBlocks) {
			c.res.Count("diag_sync_range_larger_than_fetch_size") // not part of the statement: a diagnostic
		}
		last[r.node] = r
	}
}

// ---------------------------------------------------------------------------------------------
// the block syncer driven directly with (begin, end, fetch size) triples and failing peers

func runSync(cfg OConfig, seed uint64, res *sim.Result, base string) {
	net := &simNet{nodes: map[uint64]*onode{}, cut: map[[2]uint64]bool{}, seed: seed, stats: map[string]int64{}, pFail: cfg.PFail}
	// three peers that hold the whole chain
	for i := 2; i <= 4; i++ {
		n := &onode{id: uint64(i), alive: true}
		for h := uint64(1); h <= cfg.End; h++ {
			n.chain = append(n.chain, &oblock{height: h, ts: int64(h)})
		}
		net.nodes[n.id] = n
	}
	s, err := syncer.New(uint64(cfg.SyncBlocks), &simPeer{net: net, id: 1, n: 4}, 3, []uint64{2, 3, 4}, quietLogger)
	if err != nil {
		res.Aborted = err.Error()
		return
	}
	ch := make(chan *pb.Block, 4096)
	done := make(chan error, 1)
	go func() { done <- s.SyncCFTBlocks(cfg.Begin, cfg.End, ch) }()
	// bounded simulated time: the syncer retries a failed range every 100ms
	finished := false
	for i := 0; i < 4000 && !finished; i++ {
		synctest.Wait()
		select {
		case <-done:
			finished = true
		default:
			time.Sleep(100 * time.Millisecond)
		}
	}
	var got []uint64
	sawNil := false
	for {
		select {
		case b := <-ch:
			if b == nil {
				sawNil = true
				continue
			}
			got = append(got, b.Height())
			continue
		default:
		}
		break
	}
	res.Steps = len(net.syncLog)
	res.Log.Logf("sync [%d,%d] fetch=%d pfail=%d -> %v finished=%v", cfg.Begin, cfg.End, cfg.SyncBlocks, cfg.PFail, got, finished)
	for k, v := range net.stats {
		res.Add(k, v)
	}
	if !finished {
		// every peer was marked bad after a transient failure and is never retried: a liveness loss,
		// reported as a diagnostic (C20 is a safety property)
		res.Count("diag_sync_never_finished")
	} else {
		want := cfg.End - cfg.Begin + 1
		if uint64(len(got)) != want || !sawNil {
			res.Violate("C20", "sync-coverage", 0, "count", "SyncCFTBlocks(%d,%d) with fetch size %d delivered %d blocks (want %d), end marker %v", cfg.Begin, cfg.End, cfg.SyncBlocks, len(got), want, sawNil)
		}
		for i, h := range got {
			if h != cfg.Begin+uint64(i) {
				res.Violate("C20", "sync-coverage", 0, "order", "SyncCFTBlocks(%d,%d) delivered heights %v", cfg.Begin, cfg.End, got)
				break
			}
		}
	}
	// request ranges: ascending partition, each within the fetch size, failed range retried unchanged
	var prev *syncReq
	next := cfg.Begin
	for i := range net.syncLog {
		r := net.syncLog[i]
		if r.end-r.begin+1 > uint64(cfg.SyncBlocks) && cfg.SyncBlocks > 0 {
			res.Count("diag_sync_range_larger_than_fetch_size") // calcRangeHeight asks for fetch+1 blocks when begin is a multiple of the fetch size; not part of the statement
		}
		if r.begin != next {
			res.Violate("C20", "sync-range", 0, "not-contiguous", "request %d asks for [%d,%d] but the next missing height is %d", i, r.begin, r.end, next)
		}
		if prev != nil && !prev.ok && (r.begin != prev.begin || r.end != prev.end) {
			res.Violate("C20", "sync-range", 0, "retry-differs", "failed range [%d,%d] retried as [%d,%d]", prev.begin, prev.end, r.begin, r.end)
		}
		if r.ok {
			next = r.end + 1
		}
		prev = &net.syncLog[i]
	}
	res.Nontrivial = len(net.syncLog) >= 2
	res.Shape = res.Log.Digest()
	res.State("sync", cfg.SyncBlocks, cfg.PFail, cfg.End-cfg.Begin > uint64(cfg.SyncBlocks), finished)
	_ = hex.EncodeToString
}

// noteLateTx records transactions whose broadcast is delivered after they were already committed.
func (c *cluster) noteLateTx(data []byte) {
	rm := &raftproto.RaftMessage{}
	if rm.Unmarshal(data) != nil || rm.Type != raftproto.RaftMessage_BROADCAST_TX {
		return
	}
	txs := &pb.Transactions{}
	if txs.Unmarshal(rm.Data) != nil {
		return
	}
	for _, tx := range txs.Transactions {
		h := tx.GetHash().String()
		if _, committed := c.txHeight[h]; committed {
			c.lateTx[h] = true
			c.res.Count("fault_tx_broadcast_after_commit")
		}
	}
}

// checkCommittedEntries: "each proposed batch at most once ... no entry that was not executed is skipped". A batch
// that a leader replicated at a log index at or below the commit index it announced in the same term is committed
// for good; the nodes skip an entry only if its height has been executed already, so the block that was handed over
// for that height must be that very batch - otherwise a committed batch was dropped without ever being executed.
func (c *cluster) checkCommittedEntries() {
	if len(c.res.Violations) > 0 {
		return
	}
	type key = [3]uint64
	var keys []key
	for k := range c.logEntries {
		keys = append(keys, k)
	}
	sort.Slice(keys, func(i, j int) bool {
		if keys[i][2] != keys[j][2] {
			return keys[i][2] < keys[j][2]
		}
		if keys[i][1] != keys[j][1] {
			return keys[i][1] < keys[j][1]
		}
		return keys[i][0] < keys[j][0]
	})
	for _, k := range keys {
		e := c.logEntries[k]
		lt := [2]uint64{k[0], k[1]}
		if k[2] > c.leaderCommit[lt] {
			continue // not known to be committed
		}
		c.res.Count("probe_committed_batches_checked")
		got, delivered := c.agreed[e.height]
		if !delivered || got == e.sig {
			continue
		}
		// the height was filled by another batch: which one came first in the log?
		discr := "leader-in-the-hold-off-after-its-election"
		if e.afterReset {
			// the leader's own bookkeeping said the hold-off was over, and still its pool's batch sequence went back
			// before it cut this batch: the hold-off (heights re-used until the in-flight entries are applied) cannot
			// explain it
			discr = "batch-sequence-set-back-past-the-hold-off"
		}
		c.vio("committed-batch-never-executed", discr, "leader n%d replicated in term %d at log index %d (commit index it announced: %d) a batch of %d transactions for height %d; the block handed over for that height is another batch, so this committed entry was skipped although it was never executed", k[0], k[1], k[2], c.leaderCommit[lt], e.ntx, e.height)
		return
	}
}
