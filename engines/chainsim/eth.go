package chainsim

import (
	"crypto/sha256"
	"fmt"
	"math/big"

	"github.com/ethereum/go-ethereum/accounts/abi"
	"github.com/ethereum/go-ethereum/common"
	ethtypes "github.com/ethereum/go-ethereum/core/types"
	ethcrypto "github.com/ethereum/go-ethereum/crypto"
	"github.com/meshplus/bitxhub-model/pb"
	types2 "github.com/meshplus/eth-kit/types"
)

// ---------------------------------------------------------------------------------------------
// Ethereum-format transactions ("transactions of every kind"): signed with the same keys as the
// BitXHub-native ones (same derivation, same address), executed by the node's EVM path.

func ethKeyLabel(label string) string { return "verif-key-" + label }

// ethTx builds and signs a legacy Ethereum transaction for the key with the given label.
func ethTx(chainID uint64, label string, nonce uint64, to *common.Address, value *big.Int, gas uint64, gasPrice *big.Int, data []byte) (*types2.EthTransaction, error) {
	h := sha256.Sum256([]byte(ethKeyLabel(label)))
	priv, err := ethcrypto.ToECDSA(h[:])
	if err != nil {
		return nil, err
	}
	tx := ethtypes.NewTx(&ethtypes.LegacyTx{Nonce: nonce, To: to, Value: value, Gas: gas, GasPrice: gasPrice, Data: data})
	signed, err := ethtypes.SignTx(tx, ethtypes.NewEIP155Signer(new(big.Int).SetUint64(chainID)), priv)
	if err != nil {
		return nil, err
	}
	raw, err := signed.MarshalBinary()
	if err != nil {
		return nil, err
	}
	etx := &types2.EthTransaction{}
	if err := etx.Unmarshal(raw); err != nil {
		return nil, err
	}
	_ = etx.GetHash() // the block encoder expects the hash to be cached (the API layer does this on arrival)
	return etx, nil
}

// evmStorageInit: init code of a contract whose constructor does sstore(0, 5) and whose runtime code is
// sstore(0, calldataload(0)); stop.
var evmStorageInit = []byte{
	0x60, 0x05, 0x60, 0x00, 0x55, // PUSH1 5 PUSH1 0 SSTORE
	0x60, 0x07, 0x60, 0x11, 0x60, 0x00, 0x39, // PUSH1 7 PUSH1 0x11 PUSH1 0 CODECOPY
	0x60, 0x07, 0x60, 0x00, 0xf3, // PUSH1 7 PUSH1 0 RETURN
	0x60, 0x00, 0x35, 0x60, 0x00, 0x55, 0x00, // runtime: PUSH1 0 CALLDATALOAD PUSH1 0 SSTORE STOP
}

// applyEth issues one Ethereum-format transaction: N selects the shape.
func (s *scn) applyEth(st CStep) {
	labels := []string{"user0", "user1", "user2", "poor0", "eth-unfunded"}
	label := labels[st.A%len(labels)]
	k := keyFor(label)
	to := common.BytesToAddress(s.actor(st.B + 1).Addr.Bytes())
	toP := &to
	nonce := s.b.nonces[k.Addr.String()]
	value, gas, price := big.NewInt(1000), uint64(21000), big.NewInt(1)
	var data []byte
	shape := []string{"transfer", "transfer", "no-value", "wrong-nonce", "low-gas", "huge-gas", "value-over-balance", "create-junk", "call-contract-junk", "zero-price", "huge-price",
		"deploy-storage", "store-zero", "store-nonzero", "store-nonzero", "store-zero", "interchain", "interchain"}[st.N%18]
	switch shape {
	case "deploy-storage":
		// a contract with one storage slot: the constructor stores 5 in slot 0, every call stores its argument there
		toP, gas, value = nil, 300000, new(big.Int)
		data = evmStorageInit
		if s.evmStore == nil {
			a := ethcrypto.CreateAddress(common.BytesToAddress(k.Addr.Bytes()), nonce)
			s.evmStore = &a
		}
	case "store-zero", "store-nonzero":
		if s.evmStore == nil {
			return
		}
		toP, gas, value = s.evmStore, 100000, new(big.Int)
		data = make([]byte, 32)
		if shape == "store-nonzero" {
			data[31] = byte(1 + st.B%200)
		}
	case "interchain":
		// a call of the interchain pre-compile (0x…c8): "send an interchain request to the service <destination>"; its
		// log is handed to the inter-broker contract on the executor's own goroutine. Destinations: registered services,
		// and well-formed or half-formed ids that name nothing (the hub itself as a chain, empty parts, a truncated address)
		c := common.HexToAddress("0x00000000000000000000000000000000000000c8")
		toP, gas, value = &c, 1000000, new(big.Int)
		hub := fmt.Sprint(s.cfg.World.ChainID)
		dsts := []string{hub + ":" + hub + ":mychannel&transfer", hub + ":" + hub + ":", hub + ":" + hub + ":0x1234", "7:7:", "", "a:b", hub + ":" + hub + ":" + k.Addr.String(), ":::"}
		for _, ch := range s.chains {
			for _, sv := range ch.services {
				dsts = append(dsts, sv.full(s.cfg.World.ChainID))
			}
		}
		strT, err := abi.NewType("string", "", nil)
		if err != nil {
			return
		}
		data, err = abi.Arguments{{Type: strT}, {Type: strT}, {Type: strT}, {Type: strT}, {Type: strT}}.Pack(
			dsts[st.B%len(dsts)], "interchainCharge,interchainConfirm,interchainRollback", "Alice,Bob,10", "Alice,10", "Alice,10")
		if err != nil {
			return
		}
		if st.B%7 == 6 {
			data = data[:len(data)/2] // not ABI-valid
		}
	case "no-value":
		value = new(big.Int)
	case "wrong-nonce":
		nonce += 5
	case "low-gas":
		gas = 1000
	case "huge-gas":
		gas = 1 << 40
	case "value-over-balance":
		value = new(big.Int).Add(s.bal.get(k.Addr.String()), big.NewInt(1))
	case "create-junk":
		toP, gas = nil, 200000
		data = []byte{0x60, 0x00, 0xfe, 0x01, 0x02}
	case "call-contract-junk":
		c := common.HexToAddress("0x000000000000000000000000000000000000000a")
		toP, gas = &c, 100000
		data = []byte("junk")
	case "zero-price":
		price = new(big.Int)
	case "huge-price":
		price = new(big.Int).Lsh(big.NewInt(1), 200)
	}
	etx, err := ethTx(s.cfg.World.ChainID, label, nonce, toP, value, gas, price, data)
	if err != nil {
		return
	}
	if shape != "wrong-nonce" {
		s.b.nonces[k.Addr.String()]++
	} else {
		// the node advances the account nonce to tx nonce + 1 whatever happened
		s.b.nonces[k.Addr.String()] = nonce + 1
	}
	// placeholder for the positional bookkeeping of the oracles; the block carries the real transaction
	ph := &pb.BxhTransaction{From: k.Addr, To: s.actor(st.B + 1).Addr, Nonce: nonce, TransactionHash: etx.GetHash()}
	s.add(ph, &txMeta{kind: "eth", sender: k, note: fmt.Sprintf("%s/%s", shape, label), eth: etx, ethLabel: label})
	s.res.Count("eth_txs")
}
