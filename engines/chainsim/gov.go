package chainsim

import "github.com/meshplus/bitxhub-model/pb"

func applyGov(s *scn, st CStep) {}

func afterBlockGov(s *scn, h uint64, txs []*pb.BxhTransaction, metas []*txMeta, ref *blockResult) {}
