package chainsim

import (
	"encoding/json"
	"fmt"
	"sort"
	"strings"

	"github.com/Knetic/govaluate"
	"github.com/meshplus/bitxhub-model/constant"
	"github.com/meshplus/bitxhub-model/pb"
)

// ---------------------------------------------------------------------------------------------
// Governance workload and the oracles of C15 (voting) and C16 (gating and lifecycle).
// Object statuses and proposals are *observed* through the contracts' own queries after every
// block; the oracles below are written from the statements, not from the FSM tables.

var mustRefuse = map[string]bool{"frozen": true, "forbidden": true, "pause": true, "registering": true, "unavailable": true, "<none>": true}

type objView struct {
	Status     string              `json:"status"`
	Permission map[string]struct{} `json:"permission"` // services: the sources this service blocks
}

type proposalView struct {
	Id             string               `json:"id"`
	Typ            string               `json:"Typ"`
	Status         string               `json:"status"`
	ObjId          string               `json:"obj_id"`
	BallotMap      map[string]pb.Ballot `json:"ballot_map"`
	ApproveNum     uint64               `json:"approve_num"`
	AgainstNum     uint64               `json:"against_num"`
	ElectorateList []struct {
		ID     string `json:"id"`
		Weight uint64 `json:"weight"`
	} `json:"electorate_list"`
	InitialElectorateNum   uint64 `json:"initial_electorate_num"`
	AvailableElectorateNum uint64 `json:"available_electorate_num"`
	EventType              string `json:"event_type"`
	EndReason              string `json:"end_reason"`
	IsSpecial              bool   `json:"is_special"`
	IsSuperAdminVoted      bool   `json:"is_super_admin_voted"`
	StrategyType           string `json:"strategy_type"`
	StrategyExpression     string `json:"strategy_expression"`
}

type mProposal struct {
	expr       string            // strategy expression recorded in the proposal when it was first seen
	ineligible map[string]string // administrators that were unavailable (status) throughout the block that created the proposal
	id         string
	votes      map[string]string // accepted votes: voter address -> approve|reject
	order      []string
	concluded  string // status once observed concluded
	frozen     string // raw proposal bytes at conclusion
	objAtEnd   string // object record right after the concluding block
	endBlock   uint64
	createdAt  uint64
}

type govModel struct {
	s             *scn
	proposals     map[string]*mProposal
	open          []string          // ids in creation order (for vote targeting)
	objStatus     map[string]string // "chain:<id>" / "svc:<chain>:<id>" -> status after the previous block
	objRaw        map[string]string
	forbidden     map[string]bool
	blocked       map[string]map[string]bool // "svc:<chain>:<id>" -> full ids of the sources it blocked after the previous block
	blockedNow    map[string]map[string]bool
	reentrantSeen bool              // see afterBlockGov
	tainted       map[string]bool   // objects already reported by checkOpenProposalStatus
	bindingBy     map[string]string // "node:<account>" -> open role proposal (register / bind) that put the node into 'binding'
	bindingLast   map[string]string // status those nodes had after the previous block
}

func newGovModel(s *scn) *govModel {
	return &govModel{s: s, proposals: map[string]*mProposal{}, objStatus: map[string]string{}, objRaw: map[string]string{}, forbidden: map[string]bool{}}
}

// applyRoleCycle: a governance administrator is frozen for sure (the freeze is approved by everybody), then, by
// stage, asks to be activated again (the request stays open) and votes on every open proposal while it is
// unavailable. Random single operations hardly ever get an administrator through more than one of these stages.
func applyRoleCycle(s *scn, st CStep) {
	w := s.cfg.World
	if w.Admins < 2 {
		return
	}
	i := st.B % w.Admins
	if i == 0 {
		i = 1
	}
	x := w.adminKey(i)
	addr := x.Addr.String()
	by := w.adminKey(st.A % w.Admins)
	if !s.govApprove(by, constant.RoleContractAddr, "freeze-role/govadmin/"+addr, addr, "FreezeRole", pb.String(addr), pb.String("reason")) {
		return
	}
	s.res.Count("role_cycle_freeze_submitted")
	if st.N%3 == 0 {
		return
	}
	s.add(s.b.bvm(x, constant.RoleContractAddr, "ActivateRole", pb.String(addr), pb.String("reason")), &txMeta{kind: "gov", sender: x, note: "activate-role/govadmin/" + addr, target: addr})
	s.flush()
	if st.N%3 == 1 {
		return
	}
	for _, id := range append([]string(nil), s.gov.open...) {
		s.add(s.b.bvm(x, constant.GovernanceContractAddr, "Vote", pb.String(id), pb.String("approve"), pb.String("r")), &txMeta{kind: "vote", sender: x, note: "approve", target: id})
	}
	s.flush()
}

func applyGov(s *scn, st CStep) {
	switch st.Op {
	case "rolecycle":
		applyRoleCycle(s, st)
	case "gov":
		c := s.chains[st.A%len(s.chains)]
		var k *Key
		var tx *pb.BxhTransaction
		role := st.Role
		switch role {
		case "govadmin":
			k = s.cfg.World.adminKey(st.N % s.cfg.World.Admins)
		case "outsider":
			k = s.users[len(s.users)-1]
		default:
			k = c.admin
		}
		method := map[string]string{"freeze": "Freeze", "activate": "Activate", "logout": "Logout"}[st.Act]
		if method == "" {
			method = "Freeze"
		}
		target := ""
		if st.Obj == "role" {
			// lifecycle of a governance administrator (never admin 0 when there are others: somebody must stay able to act)
			w := s.cfg.World
			i := st.B % w.Admins
			if w.Admins > 1 && i == 0 {
				i = 1
			}
			addr := w.adminKey(i).Addr.String()
			k = w.adminKey(st.N % w.Admins)
			if role == "outsider" {
				k = s.users[len(s.users)-1]
			}
			target = addr
			tx = s.b.bvm(k, constant.RoleContractAddr, method+"Role", pb.String(addr), pb.String("reason"))
		} else if st.Obj == "chain" && st.Act == "reregister" {
			// a user asks for a registration under an id that is taken; with N even every administrator approves whatever
			// proposal comes back (none on a correct node: the id stays taken for ever)
			k = s.users[st.N%len(s.users)]
			target = c.id
			args := []*pb.Arg{pb.String(c.id), pb.String(fmt.Sprintf("name-%s-again%d", c.id, st.N)), pb.Bytes(nil), pb.String("ETH"), pb.Bytes(nil), pb.String("broker"),
				pb.String("desc"), pb.String(happyRule), pb.String("url"), pb.String(k.Addr.String()), pb.String("reason")}
			note := fmt.Sprintf("reregister-chain/outsider/%s", target)
			if st.N%2 == 0 {
				s.govApprove(k, constant.AppchainMgrContractAddr, note, target, "RegisterAppchain", args...)
				s.res.Count("gov_reregister_chain_with_approval")
				return
			}
			tx = s.b.bvm(k, constant.AppchainMgrContractAddr, "RegisterAppchain", args...)
		} else if st.Obj == "chain" && st.Act == "update" {
			// the chain's admin updates the appchain: new name and/or a new admin list (possibly naming an address twice);
			// a lower-priority proposal than freeze/logout on the same object
			target = c.id
			name := "name-" + c.id
			if st.N%2 == 1 {
				name = fmt.Sprintf("name-%s-%d", c.id, st.N)
			}
			admins := []string{c.admin.Addr.String()}
			for j := 0; j < st.B%4; j++ {
				admins = append(admins, keyFor(fmt.Sprintf("coadmin-%s-%d", c.id, (st.N+j)%5)).Addr.String())
			}
			if st.B%4 >= 2 && st.N%3 == 0 {
				admins = append(admins, admins[1]) // the same address twice
			}
			tx = s.b.bvm(c.admin, constant.AppchainMgrContractAddr, "UpdateAppchain", pb.String(c.id), pb.String(name), pb.String("desc"), pb.Bytes(nil), pb.String(strings.Join(admins, ",")), pb.String("reason"))
			k = c.admin
		} else if st.Obj == "service" && st.Act == "block" {
			// the service's owner blocks (or unblocks) a source: no proposal, takes effect at once
			sv := c.services[st.B%len(c.services)]
			target = c.id + ":" + sv.id
			permits := ""
			if len(s.pairs) > 0 && st.N%4 != 3 {
				permits = s.pairs[st.N%len(s.pairs)].src.full(s.cfg.World.ChainID)
			}
			tx = s.b.bvm(c.admin, constant.ServiceMgrContractAddr, "UpdateService", pb.String(target), pb.String("nm-"+c.id+sv.id), pb.String("intro"), pb.String(permits), pb.String("details"), pb.String("reason"))
			k = c.admin
		} else if st.Obj == "service" && st.Act == "register" {
			sv := c.services[st.B%len(c.services)]
			target = c.id + ":" + sv.id
			tx = s.b.bvm(k, constant.ServiceMgrContractAddr, "RegisterService", pb.String(c.id), pb.String(sv.id), pb.String("nm-"+c.id+sv.id), pb.String("CallContract"),
				pb.String("intro"), pb.Uint64(1), pb.String(""), pb.String("details"), pb.String("reason"))
		} else if st.Obj == "service" {
			sv := c.services[st.B%len(c.services)]
			target = c.id + ":" + sv.id
			tx = s.b.bvm(k, constant.ServiceMgrContractAddr, method+"Service", pb.String(target), pb.String("reason"))
		} else {
			target = c.id
			tx = s.b.bvm(k, constant.AppchainMgrContractAddr, method+"Appchain", pb.String(target), pb.String("reason"))
		}
		s.add(tx, &txMeta{kind: "gov", sender: k, note: fmt.Sprintf("%s-%s/%s/%s", st.Act, st.Obj, role, target), target: target})
	case "strategyupdate":
		// the administrators change the voting strategy of a module while proposals of it may be open
		module := []string{"appchain_mgr", "service_mgr", "role_mgr", "rule_mgr", "node_mgr"}[st.A%5]
		expr := []string{"a > 0.5 * t", "a >= t", "a >= 1", "a >= 0.75 * t", "a - r >= 1"}[st.N%5]
		s.govApprove(s.cfg.World.adminKey(0), constant.ProposalStrategyMgrContractAddr, "update-strategy/"+module, module, "UpdateProposalStrategy", pb.String(module), pb.String("SimpleMajority"), pb.String(expr), pb.String("reason"))
		s.res.Count("gov_strategy_update")
	case "withdraw":
		// the sponsor withdraws one of its open proposals (and goes on submitting operations afterwards)
		gm := s.gov
		var cands []string
		for _, id := range gm.open {
			if s.auditSponsor[id] != nil {
				cands = append(cands, id)
			}
		}
		if len(cands) == 0 {
			return
		}
		pid := cands[st.N%len(cands)]
		sp := s.auditSponsor[pid]
		s.add(s.b.bvm(sp, constant.GovernanceContractAddr, "WithdrawProposal", pb.String(pid), pb.String("reason")), &txMeta{kind: "gov", sender: sp, note: "withdraw-proposal/sponsor/withdraw", target: "*"})
		s.res.Count("gov_withdraw_submitted")
	case "vote":
		gm := s.gov
		// target: one of the proposals known to be open, newest first; occasionally a finished or unknown one
		var pid string
		var cands []string
		for _, id := range gm.open {
			cands = append(cands, id)
		}
		if len(cands) == 0 || st.N%11 == 10 {
			all := s.proposals
			if len(all) == 0 {
				return
			}
			pid = all[st.N%len(all)]
		} else {
			pid = cands[st.N%len(cands)]
		}
		var k *Key
		if st.A%(s.cfg.World.Admins+1) == s.cfg.World.Admins {
			k = s.users[0] // not an administrator
		} else {
			k = s.cfg.World.adminKey(st.A % (s.cfg.World.Admins + 1))
		}
		v := st.V
		if v == "" {
			v = "approve"
		}
		tx := s.b.bvm(k, constant.GovernanceContractAddr, "Vote", pb.String(pid), pb.String(v), pb.String("r"))
		s.add(tx, &txMeta{kind: "vote", sender: k, note: v, target: pid})
	}
}

func (gm *govModel) observe() (map[string]string, map[string]string) {
	s := gm.s
	r := s.reps[0]
	who := s.users[0]
	var q []pb.Transaction
	var keys []string
	for _, c := range s.chains {
		q = append(q, viewTx(who, constant.AppchainMgrContractAddr, "GetAppchain", pb.String(c.id)))
		keys = append(keys, "chain:"+c.id)
		for _, sv := range c.services {
			q = append(q, viewTx(who, constant.ServiceMgrContractAddr, "GetServiceInfo", pb.String(c.id+":"+sv.id)))
			keys = append(keys, "svc:"+c.id+":"+sv.id)
		}
	}
	for i := 0; i < s.cfg.World.Admins; i++ {
		a := s.cfg.World.adminKey(i).Addr.String()
		q = append(q, viewTx(who, constant.RoleContractAddr, "GetRoleInfoById", pb.String(a)))
		keys = append(keys, "role:"+a)
	}
	if s.cfg.AuditOps {
		for i := 0; i < 3; i++ {
			a := s.auditNode(i).Addr.String()
			q = append(q, viewTx(who, constant.NodeManagerContractAddr, "GetNode", pb.String(a)))
			keys = append(keys, "node:"+a)
		}
		for i := 0; i < 2; i++ {
			a := s.auditAdmin(i).Addr.String()
			q = append(q, viewTx(who, constant.RoleContractAddr, "GetRoleInfoById", pb.String(a)))
			keys = append(keys, "role:"+a)
		}
	}
	rcs := r.viewCall(q...)
	st, raw := map[string]string{}, map[string]string{}
	gm.blockedNow = map[string]map[string]bool{}
	for i, k := range keys {
		if i < len(rcs) && rcs[i] != nil && rcs[i].Status == pb.Receipt_SUCCESS {
			o := objView{}
			_ = json.Unmarshal(rcs[i].Ret, &o)
			st[k] = o.Status
			raw[k] = string(rcs[i].Ret)
			if len(o.Permission) > 0 {
				gm.blockedNow[k] = map[string]bool{}
				for p := range o.Permission {
					gm.blockedNow[k][p] = true
				}
			}
		} else {
			st[k] = "<none>"
		}
	}
	if s.cfg.RuleOps {
		// the validation rules of every appchain (status per rule address)
		var rq []pb.Transaction
		for _, c := range s.chains {
			rq = append(rq, viewTx(who, constant.RuleManagerContractAddr, "Rules", pb.String(c.id)))
		}
		rr := r.viewCall(rq...)
		for i, c := range s.chains {
			if i >= len(rr) || rr[i] == nil || rr[i].Status != pb.Receipt_SUCCESS {
				continue
			}
			var rules []struct {
				Address string `json:"address"`
				Status  string `json:"status"`
			}
			if json.Unmarshal(rr[i].Ret, &rules) != nil {
				continue
			}
			for _, ru := range rules {
				st["rule:"+c.id+":"+ru.Address] = ru.Status
			}
		}
	}
	return st, raw
}

func (gm *govModel) proposal(id string) (*proposalView, string) {
	s := gm.s
	rcs := s.reps[0].viewCall(viewTx(s.users[0], constant.GovernanceContractAddr, "GetProposal", pb.String(id)))
	if len(rcs) != 1 || rcs[0] == nil || rcs[0].Status != pb.Receipt_SUCCESS {
		return nil, ""
	}
	p := &proposalView{}
	if json.Unmarshal(rcs[0].Ret, p) != nil {
		return nil, ""
	}
	return p, string(rcs[0].Ret)
}

func evalStrategy(expr string, a, r, t uint64) (bool, error) {
	e, err := govaluate.NewEvaluableExpression(expr)
	if err != nil {
		return false, err
	}
	res, err := e.Evaluate(map[string]interface{}{"a": float64(a), "r": float64(r), "t": float64(t)})
	if err != nil {
		return false, err
	}
	b, ok := res.(bool)
	if !ok {
		return false, fmt.Errorf("not boolean")
	}
	return b, nil
}

func afterBlockGov(s *scn, h uint64, txs []*pb.BxhTransaction, metas []*txMeta, ref *blockResult) {
	gm := s.gov
	if gm == nil || len(s.chains) == 0 || len(s.chains[0].services) == 0 {
		return
	}
	prevSt := gm.objStatus
	prevBlocked := gm.blocked
	curSt, curRaw := gm.observe()
	gm.blocked = gm.blockedNow
	// ---- which objects were legitimately touched in this block
	touched := map[string]bool{}
	govTxInBlock := false
	for i, mt := range metas {
		if i >= len(ref.Receipts) {
			continue
		}
		ok := ref.Receipts[i].Status == pb.Receipt_SUCCESS
		switch mt.kind {
		case "gov", "setup", "call":
			govTxInBlock = true
			if ok && mt.target != "" {
				touched[mt.target] = true
				if s.isAuditObject(mt.target) {
					touched["audit*"] = true // a node and the audit administrator bound to it move together
				}
			}
			if ok && mt.kind != "gov" {
				touched["*"] = true // setup and arbitrary direct calls: no claim about which object they touch
			}
		case "vote":
			govTxInBlock = true
			if ok {
				if p, _ := gm.proposal(mt.target); p != nil {
					touched[p.ObjId] = true
					if s.isAuditObject(p.ObjId) {
						touched["audit*"] = true
					}
				}
			}
		}
	}
	// "an appchain, service, role or node that was logged out never becomes usable again": a governance operation
	// submitted by an account whose role was logged out (forbidden before and after the block) must be refused
	for i, mt := range metas {
		if mt.kind != "gov" || mt.sender == nil || i >= len(ref.Receipts) || s.inSetup || strings.HasSuffix(mt.note, "/withdraw") {
			continue // (withdrawing a proposal is the sponsor's business whatever became of its role)
		}
		k := "role:" + mt.sender.Addr.String()
		if prevSt[k] == "forbidden" && curSt[k] == "forbidden" {
			s.res.Count("probe_operation_by_logged_out_role")
			if ref.Receipts[i].Status == pb.Receipt_SUCCESS {
				s.vio("C16", "logged-out-role-still-usable", strings.Split(mt.note, "/")[len(strings.Split(mt.note, "/"))-1], "block %d tx %d: operation %s submitted by %s succeeded although that role was logged out (status forbidden)", h, i, mt.note, mt.sender.Addr.String())
			}
		}
	}
	// a proposal concluded in this block for whatever reason (votes, a change of the electorate, a higher-priority
	// proposal) is "its approval or rejection" for the object it governs
	for _, id := range gm.open {
		if pv, _ := gm.proposal(id); pv != nil && pv.Status != "proposed" && pv.Status != "pause" {
			touched[pv.ObjId] = true
			if s.isAuditObject(pv.ObjId) {
				touched["audit*"] = true
			}
			if c, ok := s.ruleProposalChain[id]; ok {
				touched[c] = true
			}
		}
	}
	// ---- C16 (ii) + (iii): status changes only with cause; forbidden is absorbing
	var keys []string
	for k := range curSt {
		keys = append(keys, k)
	}
	sort.Strings(keys)
	for _, k := range keys {
		old, had := prevSt[k]
		if !had || s.inSetup {
			continue
		}
		id := k[strings.Index(k, ":")+1:]
		chainID := strings.Split(id, ":")[0]
		if gm.forbidden[k] && curSt[k] != "forbidden" && !strings.HasPrefix(k, "rule:") {
			// (rules are not in the statement's list: the appchain's logout clears its rules, logged-out ones included)
			s.vio("C16", "forbidden-left", k[:strings.Index(k, ":")], "after block %d: %s was logged out (forbidden) and now has status %s", h, k, curSt[k])
		}
		if old != curSt[k] {
			s.res.Count("probe_status_change")
			s.logf("  status of %s: %s -> %s", k, old, curSt[k])
			s.res.State("status", strings.Split(k, ":")[0], old, curSt[k])
			if !touched[id] && !touched[chainID] && !touched["*"] && !(touched["audit*"] && s.isAuditObject(id)) {
				s.vio("C16", "status-change-without-cause", strings.Split(k, ":")[0]+"/"+old+"->"+curSt[k], "block %d: status of %s changed %s -> %s although the block contains no successful operation on it, no concluding vote on it and no operation on its appchain", h, k, old, curSt[k])
			}
		}
		if curSt[k] == "forbidden" {
			gm.forbidden[k] = true
		}
	}
	// ---- C16 (iv): a frozen / logged-out appchain has no usable service
	for _, c := range s.chains {
		cs := curSt["chain:"+c.id]
		if cs == "frozen" || cs == "forbidden" {
			s.res.Count("probe_chain_unusable")
			for _, sv := range c.services {
				ss := curSt["svc:"+c.id+":"+sv.id]
				if ss == "available" || ss == "freezing" {
					s.vio("C16", "service-usable-on-unusable-chain", cs, "after block %d: appchain %s is %s but its service %s still has status %s", h, c.id, cs, sv.id, ss)
				}
			}
		}
	}
	// ---- C16 (i): gating of interchain requests (only in blocks without governance transactions,
	// so that every status is constant while the block executes)
	if !govTxInBlock && !s.inSetup {
		for i, tx := range txs {
			ib := tx.IBTP
			if ib == nil || ib.Category() != pb.IBTP_REQUEST || ib.Group != nil || i >= len(ref.Receipts) {
				continue
			}
			if metas[i].kind != "ibtp" && metas[i].kind != "relay" {
				continue // (a request relayed from another BitXHub is gated by its local destination like any other)
			}
			rc := ref.Receipts[i]
			fp, tp := strings.Split(ib.From, ":"), strings.Split(ib.To, ":")
			if len(fp) != 3 || len(tp) != 3 {
				continue
			}
			src := prevSt["svc:"+fp[1]+":"+fp[2]]
			dst, dstKnown := prevSt["svc:"+tp[1]+":"+tp[2]]
			accepted := rc.Status == pb.Receipt_SUCCESS
			beginFailed := rc.TxStatus == pb.TransactionStatus_BEGIN_FAILURE || string(rc.Ret) == "begin_failure"
			if accepted && mustRefuse[src] {
				s.vio("C16", "request-from-unavailable-service", src, "block %d tx %d: request %s-%s-%d accepted although the source service has status %s", h, i, ib.From, ib.To, ib.Index, src)
			}
			if accepted && !beginFailed && dstKnown && mustRefuse[dst] {
				s.vio("C16", "request-recorded-for-unavailable-destination", dst, "block %d tx %d: request %s-%s-%d recorded for execution although the destination service has status %s", h, i, ib.From, ib.To, ib.Index, dst)
			}
			if mustRefuse[src] || (dstKnown && mustRefuse[dst]) {
				s.res.Count("probe_ibtp_against_unusable_service")
			}
			if prevBlocked["svc:"+tp[1]+":"+tp[2]][ib.From] && gm.blocked["svc:"+tp[1]+":"+tp[2]][ib.From] {
				s.res.Count("probe_ibtp_from_blocked_source")
				if accepted && !beginFailed {
					s.vio("C16", "request-recorded-for-blocking-destination", "", "block %d tx %d: request %s-%s-%d recorded for execution although the destination service blocks that source (its stored record lists it)", h, i, ib.From, ib.To, ib.Index)
				}
			}
		}
	}
	gm.objStatus, gm.objRaw = curSt, curRaw
	// ---- C15: votes and proposals
	for _, id := range s.proposals {
		if _, ok := gm.proposals[id]; !ok {
			mp := &mProposal{id: id, votes: map[string]string{}, createdAt: h, ineligible: map[string]string{}}
			// "administrators who were eligible when it was created": an administrator whose role was frozen, forbidden,
			// activating or logouting before and after the creating block, with nothing happening to that role in the block, was not
			for i := 0; i < s.cfg.World.Admins; i++ {
				a := s.cfg.World.adminKey(i).Addr.String()
				if touched[a] || touched["*"] {
					continue // something happened to that role in this very block: its status while the proposal was created is not known
				}
				if x, y := prevSt["role:"+a], curSt["role:"+a]; x == y && (x == "frozen" || x == "forbidden" || x == "activating" || x == "logouting") {
					mp.ineligible[a] = x
				}
			}
			gm.proposals[id] = mp
			gm.open = append(gm.open, id)
		}
	}
	if s.inSetup {
		// proposals concluded during setup are not tracked
		gm.open = nil
		for _, p := range gm.proposals {
			if p.concluded == "" {
				p.concluded = "setup"
			}
		}
		return
	}
	admins := map[string]bool{}
	for i := 0; i < s.cfg.World.Admins; i++ {
		admins[s.cfg.World.adminKey(i).Addr.String()] = true
	}
	for i, mt := range metas {
		if mt.kind != "vote" || i >= len(ref.Receipts) {
			continue
		}
		s.res.Count("votes_submitted")
		if a := prevSt["role:"+mt.sender.Addr.String()]; a != "" && a != "available" && a == curSt["role:"+mt.sender.Addr.String()] {
			s.res.Count("probe_vote_submitted_by_" + a + "_admin")
		}
		if ref.Receipts[i].Status != pb.Receipt_SUCCESS {
			continue
		}
		s.res.Count("votes_accepted")
		mp := gm.proposals[mt.target]
		voter := mt.sender.Addr.String()
		// frozen and forbidden administrators are unavailable; so is one whose activation (from frozen) or logout is
		// still being voted on: the activation has not been granted yet, the logout already took it out of the electorate
		if a, b := prevSt["role:"+voter], curSt["role:"+voter]; (a == "frozen" || a == "forbidden" || a == "activating" || a == "logouting") && a == b {
			s.vio("C15", "vote-by-unavailable-admin-accepted", a, "block %d tx %d: a vote on %s by administrator %s, whose role is %s, was accepted", h, i, mt.target, voter, a)
		}
		if !admins[voter] {
			s.vio("C15", "vote-by-non-admin-accepted", "", "block %d tx %d: a vote on %s by %s, which is not an administrator, was accepted", h, i, mt.target, voter)
		}
		if mt.note != "approve" && mt.note != "reject" {
			s.vio("C15", "garbage-vote-accepted", "", "block %d tx %d: vote %q on %s was accepted", h, i, mt.note, mt.target)
		}
		if mp == nil {
			continue
		}
		if mp.concluded != "" && mp.endBlock < h {
			s.vio("C15", "vote-on-finished-proposal-accepted", mp.concluded, "block %d tx %d: vote on proposal %s accepted although it was %s in block %d", h, i, mt.target, mp.concluded, mp.endBlock)
		}
		if st, bad := mp.ineligible[voter]; bad && mp.createdAt < h {
			s.vio("C15", "vote-by-admin-not-eligible-at-creation", st, "block %d tx %d: a vote on proposal %s by administrator %s was accepted although its role was %s when the proposal was created in block %d", h, i, mt.target, voter, st, mp.createdAt)
		}
		if _, dup := mp.votes[voter]; dup {
			s.vio("C15", "second-vote-accepted", "", "block %d tx %d: a second vote of %s on proposal %s was accepted", h, i, voter, mt.target)
		}
		mp.votes[voter] = mt.note
		mp.order = append(mp.order, voter)
	}
	// a role operation whose own proposal is concluded, inside the very call that submitted it, by the change of the
	// electorate it causes (known family: the bookkeeping of that re-entrant case is wrong)
	reentrant := false
	for _, id := range gm.open {
		if mp := gm.proposals[id]; mp != nil && mp.createdAt == h {
			if pv, _ := gm.proposal(id); pv != nil && pv.Typ == "role_mgr" && pv.EndReason == "not enough valid electorate" {
				reentrant = true
				s.res.Count("probe_role_proposal_concluded_by_its_own_electorate_change")
			}
		}
	}
	if reentrant {
		gm.reentrantSeen = true
	}
	var stillOpen []string
	for _, id := range gm.open {
		mp := gm.proposals[id]
		pv, raw := gm.proposal(id)
		if pv == nil {
			continue
		}
		a, r := uint64(0), uint64(0)
		for _, v := range mp.votes {
			if v == "approve" {
				a++
			} else if v == "reject" {
				r++
			}
		}
		if pv.Status == "proposed" || mp.createdAt == h {
			// (tallies of proposals created in this very block may include votes cast before the model saw them)
			if mp.createdAt != h && (pv.ApproveNum != a || pv.AgainstNum != r) {
				s.vio("C15", "tally-mismatch", "", "after block %d proposal %s reports %d approvals / %d rejections, the accepted votes are %d / %d", h, id, pv.ApproveNum, pv.AgainstNum, a, r)
			}
		}
		s.logf("  proposal %s %s/%s status=%s approve=%d against=%d initial=%d available=%d end=%q", id[len(id)-8:], pv.Typ, pv.EventType, pv.Status, pv.ApproveNum, pv.AgainstNum, pv.InitialElectorateNum, pv.AvailableElectorateNum, pv.EndReason)
		// "the strategy expression recorded for it": what a proposal recorded when it was created is what it concludes by,
		// whatever happens to its module's strategy afterwards
		if mp.expr == "" {
			mp.expr = pv.StrategyExpression
		} else if pv.StrategyExpression != mp.expr {
			s.vio("C15", "recorded-strategy-changed", "", "after block %d proposal %s (%s %s, created in block %d) carries strategy expression %q, it recorded %q when it was created", h, id, pv.Typ, pv.EventType, mp.createdAt, pv.StrategyExpression, mp.expr)
			mp.expr = pv.StrategyExpression
		}
		if mp.createdAt == h && !s.inSetup {
			for _, e := range pv.ElectorateList {
				if st, bad := mp.ineligible[e.ID]; bad {
					s.vio("C15", "electorate-lists-admin-not-eligible-at-creation", st, "proposal %s, created in block %d, lists administrator %s among its electors although its role was %s throughout that block", id, h, e.ID, st)
				}
			}
		}
		if pv.Status == "proposed" && mp.createdAt != h {
			// "evaluated against the current number of available electors": the recorded number must be the number of
			// electors of this proposal whose role is available now (skipped while any of them is in a transitional status)
			real, settled := uint64(0), true
			for _, e := range pv.ElectorateList {
				switch curSt["role:"+e.ID] {
				case "available":
					real++
				case "frozen", "forbidden":
				default:
					settled = false
				}
			}
			if settled && len(pv.ElectorateList) > 0 {
				s.res.Count("probe_available_electorate_checked")
				if pv.AvailableElectorateNum != real {
					discr := ""
					if gm.reentrantSeen {
						discr = "after-a-role-proposal-was-concluded-by-its-own-electorate-change"
					}
					s.vio("C15", "available-electorate-mismatch", discr, "after block %d open proposal %s records %d available electors, %d of its %d electors have an available role", h, id, pv.AvailableElectorateNum, real, len(pv.ElectorateList))
				}
			}
		}
		if pv.Status == "proposed" || pv.Status == "pause" {
			stillOpen = append(stillOpen, id)
			continue
		}
		// concluded in this block
		mp.concluded, mp.frozen, mp.endBlock = pv.Status, raw, h
		s.res.Count("proposals_concluded")
		s.res.State("proposal", pv.Typ, pv.EventType, pv.Status, pv.EndReason, pv.StrategyExpression)
		if pv.EndReason == "end of normal voting" {
			s.res.Count("proposals_concluded_by_vote")
			t := pv.InitialElectorateNum
			av := pv.AvailableElectorateNum
			if pv.Status == "approve" {
				ok1, err1 := evalStrategy(pv.StrategyExpression, a, r, t)
				ok2, _ := evalStrategy(pv.StrategyExpression, a, r, av)
				if err1 == nil && !ok1 && !ok2 {
					s.vio("C15", "approved-without-satisfying-strategy", pv.StrategyExpression, "proposal %s was approved with %d approvals and %d rejections of %d (available %d) electors although its strategy %q is not satisfied", id, a, r, t, av, pv.StrategyExpression)
				}
			} else if pv.Status == "reject" {
				rem := uint64(0)
				if av > r {
					rem = av - r
				}
				// still reachable if the remaining available electors all approved?
				ok1, err1 := evalStrategy(pv.StrategyExpression, rem, r, t)
				ok2, _ := evalStrategy(pv.StrategyExpression, rem, r, av)
				if err1 == nil && ok1 && ok2 {
					s.vio("C15", "rejected-while-approval-reachable", pv.StrategyExpression, "proposal %s was rejected by the tally with %d approvals and %d rejections of %d available electors although approval was still reachable under %q", id, a, r, av, pv.StrategyExpression)
				}
			}
			if pv.IsSpecial {
				super := false
				for v := range mp.votes {
					for _, e := range pv.ElectorateList {
						if e.ID == v && e.Weight == 2 {
							super = true
						}
					}
				}
				if !super {
					s.vio("C15", "special-proposal-concluded-without-super-admin", "", "special proposal %s (%s %s) was concluded by votes none of which came from a super administrator", id, pv.Typ, pv.EventType)
				}
			}
		}
	}
	gm.open = stillOpen
	gm.checkOpenProposalStatus(h, curSt, touched)
	// finality: concluded proposals never change again
	var ids []string
	for id, mp := range gm.proposals {
		if mp.concluded != "" && mp.concluded != "setup" && mp.endBlock < h && mp.endBlock+12 > h {
			ids = append(ids, id)
		}
	}
	sort.Strings(ids)
	for _, id := range ids {
		mp := gm.proposals[id]
		if _, raw := gm.proposal(id); raw != "" && raw != mp.frozen {
			s.vio("C15", "finished-proposal-changed", mp.concluded, "after block %d: proposal %s concluded as %s in block %d but its record changed afterwards: %s", h, id, mp.concluded, mp.endBlock, jsonFieldDiff(mp.frozen, raw))
			mp.frozen = raw
		}
	}
}

// jsonFieldDiff names the top-level fields in which two JSON objects differ.
func jsonFieldDiff(a, b string) string {
	var ma, mb map[string]json.RawMessage
	if json.Unmarshal([]byte(a), &ma) != nil || json.Unmarshal([]byte(b), &mb) != nil {
		return "(not comparable)"
	}
	var out []string
	for k, va := range ma {
		if vb, ok := mb[k]; !ok || string(va) != string(vb) {
			out = append(out, fmt.Sprintf("%s: %s -> %s", k, string(va), string(mb[k])))
		}
	}
	for k := range mb {
		if _, ok := ma[k]; !ok {
			out = append(out, fmt.Sprintf("%s: (absent) -> %s", k, string(mb[k])))
		}
	}
	sort.Strings(out)
	r := strings.Join(out, "; ")
	if len(r) > 400 {
		r = r[:400] + "…"
	}
	return r
}
