package chainsim

import (
	"bytes"

	"github.com/cbergoon/merkletree"
	"github.com/meshplus/bitxhub-kit/types"
	"github.com/meshplus/bitxhub-model/pb"
)

// ---------------------------------------------------------------------------------------------
// C09 on blocks produced by the real executor: after every block (and after the twin's rollback +
// re-execution) the stored chain of a replica is read back through the ledger's lookups.

// merkleRootOf recomputes a root from stored hashes (same tree construction the node documents:
// a Merkle tree over the hashes in block order; the empty list has the zero hash).
func merkleRootOf(hs []*types.Hash) *types.Hash {
	if len(hs) == 0 {
		return &types.Hash{}
	}
	var cs []merkletree.Content
	for _, h := range hs {
		cs = append(cs, h)
	}
	t, err := merkletree.NewTree(cs)
	if err != nil {
		return nil
	}
	return types.NewHash(t.MerkleRoot())
}

// checkStoredChain verifies heights max(1,h-2)..h of replica r (who = "reference" / "twin after rollback and re-execution").
func (s *scn) checkStoredChain(r *replica, h uint64, who string) {
	if s.prop != "C09" || s.inSetup {
		return
	}
	lg := r.lg
	meta := lg.GetChainMeta()
	if meta.Height != h {
		s.vio("C09", "chain-meta", "height", "%s: chain meta height %d after executing block %d", who, meta.Height, h)
		return
	}
	lo := uint64(1)
	if h > 2 {
		lo = h - 2
	}
	for hh := lo; hh <= h; hh++ {
		blk, err := lg.GetBlock(hh, true)
		if err != nil {
			s.vio("C09", "get-block", "missing", "%s: GetBlock(%d) failed: %v", who, hh, err)
			return
		}
		if blk.BlockHash.String() != blk.BlockHeader.Hash().String() {
			s.vio("C09", "get-block", "hash", "%s: block %d stored hash %s, hash of its header %s", who, hh, blk.BlockHash, blk.BlockHeader.Hash())
		}
		if hh > 1 {
			prev, err := lg.GetBlock(hh-1, false)
			if err == nil && blk.BlockHeader.ParentHash.String() != prev.BlockHash.String() {
				s.vio("C09", "parent-link", "", "%s: block %d has parent hash %s, the stored block %d has hash %s", who, hh, blk.BlockHeader.ParentHash, hh-1, prev.BlockHash)
			}
		}
		if hh == h && meta.BlockHash.String() != blk.BlockHash.String() {
			s.vio("C09", "chain-meta", "head-hash", "%s: chain meta hash %s, stored head block hash %s", who, meta.BlockHash, blk.BlockHash)
		}
		if g := lg.GetBlockHash(hh); g.String() != blk.BlockHash.String() {
			s.vio("C09", "block-hash-index", "", "%s: GetBlockHash(%d) = %s, stored block hash %s", who, hh, g, blk.BlockHash)
		}
		if bh, err := lg.GetBlockByHash(blk.BlockHash, false); err != nil || bh.BlockHeader.Number != hh {
			s.vio("C09", "block-by-hash", "", "%s: GetBlockByHash(hash of block %d) = %v, %v", who, hh, bh, err)
		}
		var txh, rch []*types.Hash
		for i, tx := range blk.Transactions.Transactions {
			txh = append(txh, tx.GetHash())
			rc, err := lg.GetReceipt(tx.GetHash())
			if err != nil || rc.TxHash.String() != tx.GetHash().String() {
				s.vio("C09", "get-receipt", "", "%s: GetReceipt(tx %d of block %d): %v", who, i, hh, err)
				return
			}
			rch = append(rch, rc.Hash())
			got, err := lg.GetTransaction(tx.GetHash())
			if err != nil || got.GetHash().String() != tx.GetHash().String() || !bytes.Equal(got.GetPayload(), tx.GetPayload()) {
				s.vio("C09", "get-transaction", "", "%s: GetTransaction(tx %d of block %d): %v", who, i, hh, err)
			}
			tm, err := lg.GetTransactionMeta(tx.GetHash())
			if err != nil || tm.BlockHeight != hh || tm.Index != uint64(i) || !bytes.Equal(tm.BlockHash, blk.BlockHash.Bytes()) {
				s.vio("C09", "tx-meta", "", "%s: GetTransactionMeta(tx %d of block %d) = %+v, %v", who, i, hh, tm, err)
			}
		}
		if root := merkleRootOf(txh); root == nil || root.String() != blk.BlockHeader.TxRoot.String() {
			s.vio("C09", "tx-root", "", "%s: block %d has transaction root %s, the Merkle root of its %d stored transactions is %s", who, hh, blk.BlockHeader.TxRoot, len(txh), root)
		}
		if root := merkleRootOf(rch); root == nil || root.String() != blk.BlockHeader.ReceiptRoot.String() {
			s.vio("C09", "receipt-root", "", "%s: block %d has receipt root %s, the Merkle root of its %d stored receipts is %s", who, hh, blk.BlockHeader.ReceiptRoot, len(rch), root)
		}
		s.res.Count("probe_stored_block_checked")
	}
	// cumulative interchain count = sum over the delivery counters of all blocks
	if who == "reference" {
		var c uint64
		if im, err := lg.GetInterchainMeta(h); err == nil {
			for _, v := range im.Counter {
				c += uint64(len(v.Slice))
			}
		}
		s.icCum += c
		if meta.InterchainTxCount != s.icCum {
			s.vio("C09", "chain-meta", "interchain-count", "chain meta interchain count %d after block %d, sum over the delivery counters of all blocks %d", meta.InterchainTxCount, h, s.icCum)
			s.icCum = meta.InterchainTxCount
		}
	} else if h == s.height && meta.InterchainTxCount != s.icCum {
		// (only at the reference's own height: a variant block may carry one interchain transaction less)
		s.vio("C09", "chain-meta", "interchain-count-after-rollback", "%s: chain meta interchain count %d after block %d, reference %d", who, meta.InterchainTxCount, h, s.icCum)
	}
}

var _ = pb.Receipt_SUCCESS
