package chainsim

import (
	"fmt"
	"time"

	"github.com/meshplus/bitxhub-model/pb"
)

// Node-level part of C10 (second sentence of the statement): "the transaction root and receipt root change whenever
// any transaction, its position, or any receipt field covered by the receipt hash changes". The reference executes
// the block the sequencer cut; the twin first executes a variant of it (one transaction replaced, two swapped, one
// dropped, one repeated, or the identical list), delivered either bare (as the ordering layer cuts it) or with the
// header the reference filled in (as block synchronisation delivers it); then it is handed the real block again,
// which takes it through the executor's rollback and must reproduce the reference's block.
//
// Oracles: different transaction sequences ⇒ different transaction roots; equal sequences ⇒ equal roots whatever the
// delivery mode; receipt sequences compared through the receipt hash of the model package (what "covered by the
// receipt hash" means): different ⇒ different receipt roots, equal ⇒ equal.
func (s *scn) twinC10(h uint64, ev *pb.CommitEvent, txs []*pb.BxhTransaction, metas []*txMeta, ref *blockResult) bool {
	t := s.twin
	n := len(txs)
	variant := []string{"replace", "swap", "drop", "repeat", "same"}[int(h)%5]
	switch {
	case n == 0:
		variant = "same"
	case n == 1 && variant == "swap":
		variant = "drop"
	}
	var list []pb.Transaction
	for i, tx := range txs {
		list = append(list, blockTx(tx, metas[i]))
	}
	ll := append([]bool(nil), ev.LocalList...)
	k := 0
	if n > 0 {
		k = int(h/5) % n
	}
	switch variant {
	case "replace":
		f := txs[k]
		nt := &pb.BxhTransaction{From: f.From, To: f.To, Timestamp: f.Timestamp, Nonce: f.Nonce}
		if metas[k].sender != nil {
			_ = nt.Sign(metas[k].sender.Priv)
		}
		nt.TransactionHash = nt.Hash()
		list[k] = nt
	case "swap":
		if k == n-1 {
			k = n - 2
		}
		list[k], list[k+1] = list[k+1], list[k]
		ll[k], ll[k+1] = ll[k+1], ll[k]
	case "drop":
		list = append(append([]pb.Transaction(nil), list[:k]...), list[k+1:]...)
		ll = append(append([]bool(nil), ll[:k]...), ll[k+1:]...)
	case "repeat":
		list = append(list, list[k])
		ll = append(ll, ll[k])
	}
	prefilled := (h/2)%2 == 0 && ref.Block != nil
	nb := &pb.Block{BlockHeader: &pb.BlockHeader{Version: ev.Block.BlockHeader.Version, Number: h, Timestamp: ev.Block.BlockHeader.Timestamp}, Transactions: &pb.Transactions{Transactions: list}}
	mode := "bare"
	if prefilled {
		// what a catching-up node is served: the peer's header for this height, with whatever transaction list came along
		c := syncedCommit(ref.Block, ev.LocalList)
		nb.BlockHeader, nb.BlockHash, nb.Signature = c.Block.BlockHeader, c.Block.BlockHash, c.Block.Signature
		mode = "header-filled-in"
	}
	vev := &pb.CommitEvent{Block: nb, LocalList: ll}
	tr, err := t.execute(vev, 12*time.Second)
	if err != nil {
		s.res.Aborted = "twin (C10 variant): " + err.Error()
		return false
	}
	s.res.Count("c10_variant_" + variant)
	s.res.Count("c10_delivery_" + mode)
	s.res.State("c10", variant, mode)
	sameList := len(list) == len(ref.TxHashes)
	if sameList {
		for i := range list {
			if list[i].GetHash().String() != ref.TxHashes[i].String() {
				sameList = false
			}
		}
	}
	discr := variant + "/" + mode
	if variant == "repeat" && k == n-1 && n%2 == 1 {
		// known: the Merkle tree of the pinned dependency pairs the last leaf of an odd level with itself, so a list
		// and the same list with its last element repeated have one root
		discr = "repeat-of-the-last-transaction-of-an-odd-sized-block"
	}
	a, b := ref.Header.TxRoot.String(), tr.Header.TxRoot.String()
	switch {
	case sameList && a != b:
		s.vio("C10", "tx-root-differs-for-equal-list", mode, "block %d: the same %d transactions in the same order, delivered %s, give transaction root %s; the reference computed %s", h, n, mode, b[:14], a[:14])
	case !sameList && a == b:
		s.vio("C10", "tx-root-unchanged", discr, "block %d: the twin executed the block with its transaction list changed (%s, position %d, %d -> %d transactions, delivered %s) and stored transaction root %s, the same root the reference computed for the original list", h, variant, k, n, len(list), mode, b[:14])
	}
	// receipts through the receipt hash (not for a repeated transaction: receipts are read back by transaction hash,
	// the two positions of a repeated transaction cannot be told apart)
	ra := ref.Header.ReceiptRoot.String()
	if variant != "repeat" {
		sameRc := len(ref.Receipts) == len(tr.Receipts)
		if sameRc {
			for i := range ref.Receipts {
				if ref.Receipts[i].Hash().String() != tr.Receipts[i].Hash().String() {
					sameRc = false
				}
			}
		}
		rb := tr.Header.ReceiptRoot.String()
		switch {
		case sameRc && ra != rb:
			s.vio("C10", "receipt-root-differs-for-equal-receipts", mode, "block %d: %d receipts with pairwise equal receipt hashes, yet receipt root %s vs %s (variant %s, delivered %s)", h, len(ref.Receipts), rb[:14], ra[:14], variant, mode)
		case !sameRc && ra == rb:
			s.vio("C10", "receipt-root-unchanged", variant+"/"+mode, "block %d: the receipts of the variant block (%s, delivered %s) differ from the reference's in a field covered by the receipt hash (or in number: %d vs %d), yet both blocks carry receipt root %s", h, variant, mode, len(tr.Receipts), len(ref.Receipts), ra[:14])
		}
	}
	if sameList && tr.Header.StateRoot.String() != ref.Header.StateRoot.String() {
		s.vio("C10", "state-root-differs-for-equal-block", mode, "block %d: the same transactions delivered %s give state root %s, the reference computed %s", h, mode, tr.Header.StateRoot.String()[:14], ref.Header.StateRoot.String()[:14])
	}
	if sameList && tr.Hash != ref.Hash {
		s.vio("C10", "block-hash-differs-for-equal-block", mode, "block %d: the same transactions delivered %s give block hash %s, the reference computed %s", h, mode, tr.Hash[:14], ref.Hash[:14])
	}
	// back to the real block (executor rollback + re-execution), every other time as block synchronisation delivers it
	rev := ev
	rmode := "bare"
	if h%3 == 0 && ref.Block != nil {
		rev = syncedCommit(ref.Block, ev.LocalList)
		rmode = "header-filled-in"
	}
	if sameList && variant == "same" {
		// the twin already holds this very block; handing it over again is a repeat the executor ignores
		return true
	}
	tr2, err := t.execute(rev, 12*time.Second)
	if err != nil {
		s.res.Aborted = "twin resync (C10): " + err.Error()
		return false
	}
	s.res.Count("probe_executor_rollback_reexecute")
	if tr2.Hash != ref.Hash || tr2.Header.TxRoot.String() != a || tr2.Header.ReceiptRoot.String() != ra || tr2.Header.StateRoot.String() != ref.Header.StateRoot.String() {
		what := fmt.Sprintf("tx root %s/%s receipt root %s/%s state root %s/%s hash %s/%s", tr2.Header.TxRoot.String()[:10], a[:10], tr2.Header.ReceiptRoot.String()[:10], ra[:10], tr2.Header.StateRoot.String()[:10], ref.Header.StateRoot.String()[:10], tr2.Hash[:10], ref.Hash[:10])
		s.vio("C10", "roots-differ-after-reexecution", rmode, "block %d: after executing a variant of the block (%s) and then the real block (delivered %s) the twin stores %s (twin/reference)", h, variant, rmode, what)
		s.fatal = true
	}
	return true
}
