package chainsim

import (
	"fmt"

	"github.com/meshplus/bitxhub-kit/types"
	"github.com/meshplus/bitxhub-model/constant"
	"github.com/meshplus/bitxhub-model/pb"
	"github.com/meshplus/bitxhub/verif/sim"
)

// C08: structure- and byte-level mutations of well-formed transactions of every kind.
// The quantifier of C08 is over inputs only: this is seeded input generation executed on the
// simulated node; the simulator contributes wedge/process-death detection, position-in-block
// variation and exact replay.

var badIDs = []string{"", ":", "a:b", "a:b:c:d", "1356:chain-A:s1", "1356:chainA:s-1", "-", "1356::", "::", "1356:chainA:s1-1356:chainB:s1-1", "9999:x:y"}

func (s *scn) applyMutate(st CStep) {
	r := sim.NewRand(uint64(st.N)*7919 + uint64(st.A))
	sender := s.actor(st.A)
	bxh := s.cfg.World.ChainID
	var tx *pb.BxhTransaction
	note := ""
	resign := true
	switch st.Kind {
	case "ibtp":
		var from, to string
		if len(s.pairs) > 0 {
			p := s.pairs[r.Intn(len(s.pairs))]
			from, to = p.src.full(bxh), p.dst.full(bxh)
		}
		ib := &pb.IBTP{From: from, To: to, Index: uint64(r.Intn(3)), TimeoutHeight: int64(r.Intn(4))}
		switch r.Intn(9) {
		case 0:
			ib.From = badIDs[r.Intn(len(badIDs))]
			note = "bad-from"
		case 1:
			ib.To = badIDs[r.Intn(len(badIDs))]
			note = "bad-to"
		case 2:
			ib.Index = []uint64{0, 1 << 63, ^uint64(0)}[r.Intn(3)]
			note = "index-extreme"
		case 3:
			ib.TimeoutHeight = []int64{-1, -1 << 63, 1<<63 - 1}[r.Intn(3)]
			note = "timeout-extreme"
		case 4:
			ib.Type = pb.IBTP_Type(r.Intn(12) - 2)
			note = "type-junk"
		case 5:
			ib.Group = &pb.StringUint64Map{Keys: []string{to, badIDs[r.Intn(len(badIDs))]}, Vals: []uint64{1}}
			note = "group-mismatched"
		case 6:
			ib.Group = &pb.StringUint64Map{}
			note = "group-empty"
		case 7:
			ib.Payload = r.Bytes(r.Range(0, 64))
			ib.Extra = r.Bytes(r.Range(0, 64))
			note = "payload-junk"
		case 8:
			ib.From, ib.To = to, from
			ib.Type = pb.IBTP_RECEIPT_ROLLBACK
			note = "swapped"
		}
		tx = s.b.ibtpTx(sender, ib, []byte("1p"), true)
		if r.Chance(0.3) {
			tx.Extra = r.Bytes(r.Range(0, 40))
			note += "+extra-junk"
		}
		if r.Chance(0.2) {
			tx.IBTP = nil // the payload still says HandleIBTP
			note += "+ibtp-field-nil"
		}
	case "xvm":
		switch r.Intn(4) {
		case 0:
			tx = s.b.xvmDeploy(sender, r.Bytes(r.Range(0, 80)))
			note = "deploy-junk-code"
		case 1:
			tx = s.b.xvmDeploy(sender, bitRuleWasm[:r.Range(1, len(bitRuleWasm)-1)])
			note = "deploy-truncated-module"
		case 2:
			tx = s.b.xvmInvoke(sender, s.actor(st.B).Addr, "start_verify", pb.Bytes(r.Bytes(4)))
			note = "invoke-non-contract"
		case 3:
			tx = s.b.xvmDeploy(sender, bitRuleWasm)
			note = "deploy-ok"
		}
	default:
		tx = s.b.transfer(sender, s.actor(st.B).Addr, "1")
		switch r.Intn(8) {
		case 0:
			tx.Payload = nil
			note = "payload-nil"
		case 1:
			tx.Payload = r.Bytes(r.Range(1, 60))
			note = "payload-junk"
		case 2:
			td := &pb.TransactionData{Type: pb.TransactionData_Type(r.Intn(6) + 2), VmType: pb.TransactionData_VMType(r.Intn(6)), Payload: r.Bytes(8)}
			tx.Payload, _ = td.Marshal()
			note = "type-junk"
		case 3:
			tx.To = nil
			note = "to-nil"
			// no receiver at all, on every path that looks at the receiver: a transfer, a contract call for the WASM VM, a
			// call of a built-in contract
			switch st.B % 3 {
			case 1:
				tx.Payload = s.b.xvmInvoke(sender, s.actor(st.B).Addr, "start_verify", pb.Bytes([]byte{1, 2, 3, 4})).Payload
				note = "to-nil-xvm-invoke"
			case 2:
				tx.Payload = invokePayload(pb.TransactionData_BVM, "Get", pb.String("k"))
				note = "to-nil-bvm-invoke"
			}
		case 4:
			tx.To = types.NewAddress(r.Bytes(20))
			tx.Payload = invokePayload(pb.TransactionData_BVM, "Get", pb.String("k"))
			note = "bvm-unknown-address"
		case 5:
			tx.To = constant.StoreContractAddr.Address()
			tx.Payload = invokePayload(pb.TransactionData_BVM, "NoSuchMethod")
			note = "bvm-unknown-method"
		case 6:
			pl := invokePayload(pb.TransactionData_BVM, "Set", pb.String("k"), pb.String("v"))
			tx.To = constant.StoreContractAddr.Address()
			tx.Payload = pl[:r.Range(1, len(pl)-1)]
			note = "bvm-truncated-payload"
		case 7:
			tx.To = constant.StoreContractAddr.Address()
			big := make([]byte, 1<<16)
			tx.Payload = invokePayload(pb.TransactionData_BVM, "Set", pb.String("k"), pb.String(string(big)))
			note = "bvm-oversized-arg"
		}
	}
	if resign {
		tx.Signature = nil
		_ = tx.Sign(sender.Priv)
		tx.TransactionHash = tx.Hash()
	}
	s.add(tx, &txMeta{kind: "mut", sender: sender, note: fmt.Sprintf("%s/%s", st.Kind, note), local: st.Local})
}
