package chainsim

import (
	"encoding/json"
	"fmt"
	"sort"
	"strings"

	"github.com/meshplus/bitxhub-model/constant"
	"github.com/meshplus/bitxhub-model/pb"
)

// ---------------------------------------------------------------------------------------------
// C05: one-to-many cross-chain transactions are all-or-nothing. Reference model written from the
// statement; child statuses are read from the stored group record, notifications from the block's
// MultiTxCounter / TimeoutCounter.

type gChild struct {
	id       string // from-to-index
	to       string
	index    uint64
	begun    bool // request accepted
	begunAt  uint64
	okRcpt   bool // success receipt accepted
	okAt     uint64
	failRcpt bool
}

type gGroup struct {
	slot     int
	src      *mService
	children []*gChild
	keys     []string
	vals     []uint64
	t        int64
	globalID string
	expiry   uint64
	failedAt uint64 // block in which the group failed (0 = not failed)
	failWhy  string
	sawOK    bool            // real global status SUCCESS observed
	okBefore map[string]bool // children that had succeeded before the failing block
	trigger  string          // child whose own begin failure / failure receipt made the group fail
}

func (g *gGroup) group() *pb.StringUint64Map { return &pb.StringUint64Map{Keys: g.keys, Vals: g.vals} }

// groupRot: the same declaration with its members listed from another starting point (a pier that fills the
// descriptor from a map lists them in any order; the group is the same)
func (g *gGroup) groupRot(k int) *pb.StringUint64Map {
	n := len(g.keys)
	if n < 2 {
		return g.group()
	}
	k = ((k % n) + n) % n
	out := &pb.StringUint64Map{}
	for i := 0; i < n; i++ {
		out.Keys = append(out.Keys, g.keys[(i+k)%n])
		out.Vals = append(out.Vals, g.vals[(i+k)%n])
	}
	return out
}

type groupModel struct {
	s       *scn
	groups  map[int]*gGroup    // slot -> most recently declared group (for step resolution)
	bySig   map[string]*gGroup // (source, declared children) -> group: one-to-one with the node's global id
	byChild map[string]*gGroup // id of a begun child -> its group (a receipt need not repeat the group declaration)
}

func newGroupModel(s *scn) *groupModel {
	return &groupModel{s: s, groups: map[int]*gGroup{}, bySig: map[string]*gGroup{}, byChild: map[string]*gGroup{}}
}

func groupSig(from string, g *pb.StringUint64Map) string {
	if g == nil {
		return ""
	}
	var kv []string
	for i, k := range g.Keys {
		v := uint64(0)
		if i < len(g.Vals) {
			v = g.Vals[i]
		}
		kv = append(kv, fmt.Sprintf("%s=%d", k, v))
	}
	sort.Strings(kv)
	return from + "|" + strings.Join(kv, ",")
}

// services of all chains but the source's
func (s *scn) dstServices(src *mService) []*mService {
	var out []*mService
	for _, c := range s.chains {
		if c == src.chain {
			continue
		}
		out = append(out, c.services...)
	}
	return out
}

func (s *scn) allServices() []*mService {
	var out []*mService
	for _, c := range s.chains {
		out = append(out, c.services...)
	}
	return out
}

func (s *scn) applyGroup(st CStep) {
	gm := s.grp
	bxh := s.cfg.World.ChainID
	switch st.Op {
	case "gopen":
		all := s.allServices()
		if s.cfg.SplitGroups {
			all = nil
			for _, sv := range s.allServices() {
				if sv.chain == s.chains[0] {
					all = append(all, sv)
				}
			}
		}
		src := all[st.A%len(all)]
		dsts := s.dstServices(src)
		if len(dsts) < 2 {
			return
		}
		n := 2 + st.N%3
		if n > len(dsts) {
			n = len(dsts)
		}
		g := &gGroup{slot: st.Group % 3, src: src, t: st.T, okBefore: map[string]bool{}}
		off := st.B % len(dsts)
		for i := 0; i < n; i++ {
			d := dsts[(off+i)%len(dsts)]
			if st.Ghost && i == n-1 {
				// the last declared child goes to a service that does not exist: it fails at begin
				d = &mService{chain: d.chain, id: "ghost", ordered: true}
			}
			pm := s.ibtp.pair(src.full(bxh), d.full(bxh))
			pm.batch = true // pairs carrying group children are judged by the group model, not the one-to-one counters
			idx := pm.reqSubmitted() + 1
			pm.noteReqSubmitted(idx)
			c := &gChild{to: d.full(bxh), index: idx}
			c.id = fmt.Sprintf("%s-%s-%d", src.full(bxh), c.to, idx)
			g.children = append(g.children, c)
			g.keys = append(g.keys, c.to)
			g.vals = append(g.vals, idx)
		}
		// a new declaration in a slot replaces the previous one for step resolution; groups stay known by signature
		sig := groupSig(src.full(bxh), g.group())
		if old, ok := gm.bySig[sig]; ok {
			g = old
		} else {
			gm.bySig[sig] = g
		}
		gm.groups[g.slot] = g
		s.logf("%d gopen slot %d src %s children %v", s.step, g.slot, src.full(bxh), g.keys)
		s.res.Count("groups_declared")
		distinctChains := map[string]bool{}
		for _, k := range g.keys {
			distinctChains[chainOf(k)] = true
		}
		if len(distinctChains) > 1 {
			s.res.Count("probe_group_children_on_several_chains")
		}
	case "gchild":
		g := gm.groups[st.Group%3]
		if g == nil {
			return
		}
		c := g.children[st.N%len(g.children)]
		ib := &pb.IBTP{From: g.src.full(bxh), To: c.to, Index: c.index, Type: pb.IBTP_INTERCHAIN, TimeoutHeight: g.t, Group: g.groupRot(st.N / 4)}
		if st.Idx == "dup" {
			ib.Index = c.index // a duplicate child report
		}
		tx := s.b.ibtpTx(g.src.chain.admin, ib, []byte(fmt.Sprintf("1g-%d", s.step)), true)
		s.add(tx, &txMeta{kind: "gchild", ibtp: ib, sender: g.src.chain.admin, proofOK: true, note: fmt.Sprintf("slot%d %s#%d", g.slot, chainOf(c.to)+":"+strings.Split(c.to, ":")[2], ib.Index)})
	case "grecv":
		g := gm.groups[st.Group%3]
		if g == nil {
			return
		}
		c := g.children[st.N%len(g.children)]
		typ := pb.IBTP_RECEIPT_SUCCESS
		switch st.Kind {
		case "fail":
			typ = pb.IBTP_RECEIPT_FAILURE
		case "rollback":
			typ = pb.IBTP_RECEIPT_ROLLBACK
		}
		ib := &pb.IBTP{From: g.src.full(bxh), To: c.to, Index: c.index, Type: typ, Group: g.group()}
		var dstAdmin *Key
		for _, ch := range s.chains {
			if ch.id == chainOf(c.to) {
				dstAdmin = ch.admin
			}
		}
		if dstAdmin == nil {
			dstAdmin = s.users[0]
		}
		tx := s.b.ibtpTx(dstAdmin, ib, []byte(fmt.Sprintf("1r-%d", s.step)), true)
		s.add(tx, &txMeta{kind: "grecv", ibtp: ib, sender: dstAdmin, proofOK: true, note: fmt.Sprintf("slot%d/%s %s#%d", g.slot, st.Kind, chainOf(c.to)+":"+strings.Split(c.to, ":")[2], ib.Index)})
	}
}

type storedGroup struct {
	GlobalState  int
	Height       uint64
	ChildTxInfo  map[string]int
	ChildTxCount uint64
}

func isFailStatus(s int) bool {
	return s == stBeginFailure || s == stFailure || s == stBeginRollback || s == stRollback
}

func notifySet(m map[string]*pb.StringSlice) map[string]map[string]bool {
	out := map[string]map[string]bool{}
	for c, sl := range m {
		out[c] = map[string]bool{}
		for _, id := range sl.Slice {
			out[c][id] = true
		}
	}
	return out
}

func (gm *groupModel) afterBlock(h uint64, txs []*pb.BxhTransaction, metas []*txMeta, ref *blockResult) {
	s := gm.s
	if len(gm.groups) == 0 {
		return
	}
	tm := string(constant.TransactionMgrContractAddr.Address().Bytes())
	dump := map[string]string{}
	for _, kv := range s.reps[0].stateDump() {
		if strings.HasPrefix(kv[0], tm) {
			dump[kv[0][20:]] = kv[1]
		}
	}
	// fold the accepted events of this block
	failedNow := map[*gGroup]bool{}
	for i, tx := range txs {
		ib := tx.IBTP
		if ib == nil || i >= len(ref.Receipts) {
			continue
		}
		rc := ref.Receipts[i]
		if rc.Status != pb.Receipt_SUCCESS {
			if ib.Group != nil {
				s.res.Count("group_msgs_rejected")
			}
			continue
		}
		id := fmt.Sprintf("%s-%s-%d", ib.From, ib.To, ib.Index)
		g := gm.bySig[groupSig(ib.From, ib.Group)]
		if ib.Category() == pb.IBTP_RESPONSE || ib.Group == nil {
			// a report belongs to the group in which the child began, whatever it declares itself
			if b, ok := gm.byChild[id]; ok {
				g = b
			} else {
				g = nil // a report for something that never began as a child of a group is not a group event
			}
		}
		if g == nil {
			continue
		}
		var c *gChild
		for _, x := range g.children {
			if x.id == id {
				c = x
			}
		}
		if c == nil {
			continue
		}
		// keep the one-to-one pair counters of the shared model in step
		pm := s.ibtp.pair(ib.From, ib.To)
		if ib.Category() == pb.IBTP_REQUEST {
			if ib.Index > pm.reqAccepted {
				pm.reqAccepted = ib.Index
			}
			if !c.begun {
				c.begun, c.begunAt = true, h
			}
			if _, ok := gm.byChild[id]; !ok {
				gm.byChild[id] = g
			}
			if g.globalID == "" {
				g.globalID = dump[id]
			}
			if g.expiry == 0 && g.t > 0 {
				g.expiry = h + uint64(g.t)
			}
			if rc.TxStatus == pb.TransactionStatus_BEGIN_FAILURE || string(rc.Ret) == "begin_failure" {
				if g.failedAt == 0 {
					g.failedAt, g.failWhy, g.trigger = h, "child failed at begin", c.id
					failedNow[g] = true
					for _, x := range g.children {
						if x.okRcpt && x.okAt < h {
							g.okBefore[x.id] = true
						}
					}
				}
			}
		} else {
			switch ib.Type {
			case pb.IBTP_RECEIPT_SUCCESS:
				if !c.okRcpt {
					c.okRcpt, c.okAt = true, h
				}
			case pb.IBTP_RECEIPT_FAILURE:
				c.failRcpt = true
				if g.failedAt == 0 {
					g.failedAt, g.failWhy, g.trigger = h, "child failed by receipt", c.id
					failedNow[g] = true
					for _, x := range g.children {
						if x.okRcpt && x.okAt < h && x.id != g.trigger {
							g.okBefore[x.id] = true
						}
					}
				}
			}
		}
	}
	s.ibtp.resetCursors()
	multi := map[string]map[string]bool{}
	timeouts := map[string]map[string]bool{}
	if ref.Meta != nil {
		multi = notifySet(ref.Meta.MultiTxCounter)
		timeouts = notifySet(ref.Meta.TimeoutCounter)
	}
	var sigs []string
	for k := range gm.bySig {
		sigs = append(sigs, k)
	}
	sort.Strings(sigs)
	for _, k := range sigs {
		g := gm.bySig[k]
		if g.globalID == "" {
			continue
		}
		// group timeout
		allOK := true
		for _, c := range g.children {
			if !c.okRcpt {
				allOK = false
			}
		}
		if g.expiry == h && g.failedAt == 0 && !allOK {
			g.failedAt, g.failWhy = h, "group timed out"
			failedNow[g] = true
			for _, x := range g.children {
				if x.okRcpt && x.okAt < h {
					g.okBefore[x.id] = true
				}
			}
			s.res.Count("probe_group_timeout")
		}
		raw, ok := dump["global-tx-"+g.globalID]
		if !ok {
			continue
		}
		sg := storedGroup{}
		if json.Unmarshal([]byte(raw), &sg) != nil {
			continue
		}
		s.res.State("group", sg.GlobalState, len(sg.ChildTxInfo), g.failedAt != 0)
		if sg.GlobalState == stSuccess {
			g.sawOK = true
			s.res.Count("probe_group_success")
			for _, c := range g.children {
				if !c.okRcpt {
					s.vio("C05", "success-without-all-children", "", "after block %d group %s is SUCCESS although declared child %s has no accepted success receipt", h, g.globalID[:12], c.id)
				}
			}
			if g.failedAt != 0 {
				s.vio("C05", "success-after-failure", g.failWhy, "after block %d group %s is SUCCESS although it failed in block %d (%s)", h, g.globalID[:12], g.failedAt, g.failWhy)
			}
		}
		if g.failedAt != 0 {
			s.res.Count("probe_group_failed_observed")
			for id, st := range sg.ChildTxInfo {
				if !isFailStatus(st) {
					s.vio("C05", "child-not-failed", g.failWhy+"/"+stName(st), "after block %d group %s failed in block %d (%s) but child %s has status %s", h, g.globalID[:12], g.failedAt, g.failWhy, id, stName(st))
				}
			}
		}
		// a group's children are announced as timed out only in the block in which the group times out
		if !(failedNow[g] && g.failWhy == "group timed out") {
			src := chainOf(g.src.full(s.cfg.World.ChainID))
			for _, c := range g.children {
				if c.begun && gm.byChild[c.id] == g && timeouts[src][c.id] {
					why := "group did not time out in this block"
					if g.failedAt != 0 {
						why = fmt.Sprintf("group had already failed in block %d (%s)", g.failedAt, g.failWhy)
					}
					s.vio("C05", "unexpected-timeout-notification", "", "block %d: child %s of group %s is announced as timed out to chain %s although the %s (expiry %d)", h, c.id, g.globalID[:12], src, why, g.expiry)
					s.vio("C06", "group-timeout-notification", "unexpected", "block %d: child %s of group %s is announced as timed out to chain %s although the %s (expiry %d)", h, c.id, g.globalID[:12], src, why, g.expiry)
					break
				}
			}
		}
		if failedNow[g] {
			// notifications in the failing block
			src := chainOf(g.src.full(s.cfg.World.ChainID))
			note := multi
			if g.failWhy == "group timed out" {
				note = timeouts
			}
			for _, c := range g.children {
				if !c.begun || c.begunAt >= h || c.id == g.trigger {
					continue // the triggering child (and children begun in this very block) reach the source through ordinary delivery
				}
				// the child whose own failure receipt triggered the failure was already rolled back by its chain;
				// the statement still asks the source to roll back every child
				if !note[src][c.id] && g.failWhy == "group timed out" {
					s.vio("C06", "group-timeout-notification", "missing", "block %d: group %s timed out (accepted in block %d with timeout %d) but its child %s is not in the timeout notifications of source chain %s: %v", h, g.globalID[:12], g.expiry-uint64(g.t), g.t, c.id, src, keysOf(timeouts))
				}
				if !note[src][c.id] {
					s.vio("C05", "source-not-told-to-roll-back", g.failWhy, "block %d: group %s failed (%s) but source chain %s is not told to roll back child %s; notifications: multi=%v timeout=%v", h, g.globalID[:12], g.failWhy, src, c.id, keysOf(multi), keysOf(timeouts))
					break
				}
			}
			for id := range g.okBefore {
				dst := chainOf(strings.Split(id, "-")[1])
				if !note[dst][id] {
					s.vio("C05", "destination-not-told-to-roll-back", g.failWhy, "block %d: group %s failed (%s); child %s had already succeeded on chain %s, which is not told to roll it back; notifications: multi=%v timeout=%v", h, g.globalID[:12], g.failWhy, id, dst, keysOf(multi), keysOf(timeouts))
					break
				}
			}
		}
	}
}

func keysOf(m map[string]map[string]bool) map[string][]string {
	out := map[string][]string{}
	for c, ids := range m {
		for id := range ids {
			out[c] = append(out[c], id)
		}
		sort.Strings(out[c])
	}
	return out
}
