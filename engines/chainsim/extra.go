package chainsim

import (
	"encoding/json"

	"github.com/meshplus/bitxhub-core/governance"

	"github.com/meshplus/bitxhub-model/pb"
)

// applyExtra handles governance / direct-call / mutation steps (filled in by later files).
func (s *scn) applyExtra(st CStep) {
	switch st.Op {
	case "call":
		s.applyCall(st)
	case "mut":
		s.applyMutate(st)
	case "occupycycle":
		s.applyOccupyCycle(st)
	case "zeroswitch":
		s.applyZeroSwitch(st)
	case "adminswap":
		s.applyAdminSwap(st)
	default:
		applyGov(s, st)
	}
}

func (s *scn) afterBlockExtra(h uint64, txs []*pb.BxhTransaction, metas []*txMeta, ref *blockResult) {
	// remember proposal ids returned by any governance operation (argument pool, vote targets)
	for i, rc := range ref.Receipts {
		if rc.Status == pb.Receipt_SUCCESS && len(rc.Ret) > 15 && rc.Ret[0] == '{' {
			g := &governance.GovernanceResult{}
			if json.Unmarshal(rc.Ret, g) == nil && g.ProposalID != "" {
				s.proposals = append(s.proposals, g.ProposalID)
				if i < len(metas) && metas[i].sender != nil {
					if s.auditSponsor == nil {
						s.auditSponsor = map[string]*Key{}
					}
					if _, known := s.auditSponsor[g.ProposalID]; !known {
						s.auditSponsor[g.ProposalID] = metas[i].sender // the account that may withdraw it
					}
				}
			}
		}
	}
	s.afterBlockCalls(h, txs, metas, ref)
	afterBlockGov(s, h, txs, metas, ref)
}
