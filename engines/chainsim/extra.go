package chainsim

import (
	"math/big"

	"github.com/meshplus/bitxhub-model/pb"
)

// applyExtra handles governance / direct-call / mutation steps (filled in by later files).
func (s *scn) applyExtra(st CStep) {
	switch st.Op {
	default:
		applyGov(s, st)
	}
}

func (s *scn) afterBlockExtra(h uint64, txs []*pb.BxhTransaction, metas []*txMeta, ref *blockResult) {
	afterBlockGov(s, h, txs, metas, ref)
}

func (s *scn) roleGrantsInBlock(h uint64) *big.Int { return new(big.Int) }
