package chainsim

import (
	"encoding/hex"
	"encoding/json"
	"fmt"
	"reflect"
	"sort"
	"strings"

	"github.com/meshplus/bitxhub-core/governance"
	"github.com/meshplus/bitxhub-kit/types"
	"github.com/meshplus/bitxhub-model/constant"
	"github.com/meshplus/bitxhub-model/pb"
	"github.com/meshplus/bitxhub/verif/sim"
)

// ---------------------------------------------------------------------------------------------
// C17 / C08: the dispatch surface is enumerated by reflection over the contracts the executor
// registered (every exported method, including the methods promoted from the embedded stub),
// never listed by hand. Only the *classification* below is written from the statement of C17.

type methodInfo struct {
	addr     string
	contract string // Go type name
	name     string
	in       []reflect.Type
}

func (s *scn) surface() []methodInfo {
	if s.methods != nil {
		return s.methods
	}
	cs := s.reps[0].exec.GetBoltContracts()
	var addrs []string
	for a := range cs {
		addrs = append(addrs, a)
	}
	sort.Strings(addrs)
	for _, a := range addrs {
		t := reflect.TypeOf(cs[a])
		name := t.String()
		if i := strings.LastIndex(name, "."); i >= 0 {
			name = name[i+1:]
		}
		for i := 0; i < t.NumMethod(); i++ {
			m := t.Method(i)
			mi := methodInfo{addr: a, contract: name, name: m.Name}
			for j := 1; j < m.Type.NumIn(); j++ {
				mi.in = append(mi.in, m.Type.In(j))
			}
			s.methods = append(s.methods, mi)
		}
	}
	s.res.Add("surface_methods_enumerated", int64(len(s.methods)))
	return s.methods
}

// classification written from the statement of C17
var internalOnly = map[string][]string{
	"TransactionManager": {"Begin", "BeginMultiTXs", "BeginInterBitXHub", "Report"},
	"Governance":         {"SubmitProposal", "LockLowPriorityProposal", "UnLockLowPriorityProposal", "EndObjProposal", "UpdateAvailableElectorateNum"},
	"AppchainManager":    {"Manage", "PauseAppchain", "UnPauseAppchain"},
	"ServiceManager":     {"Manage", "PauseChainService", "UnPauseChainService", "ClearChainService", "RecordInvokeService"},
	"RuleManager":        {"Manage", "ClearRule", "RegisterRuleFirst"},
	"RoleManager":        {"Manage", "UpdateAppchainAdmin", "OccupyAccount", "FreeAccount", "PauseAuditAdmin", "PauseAuditAdminBinding", "RestoreAuditAdminBinding"},
	"NodeManager":        {"Manage"},
	"DappManager":        {"Manage"},
	"GovStrategy":        {"Manage", "UpdateProposalStrategyByRolesChange"},
}

// operations reserved to a chain's own admin or to governance admins: must fail for an outsider
var privileged = map[string][]string{
	"AppchainManager": {"UpdateAppchain", "FreezeAppchain", "ActivateAppchain", "LogoutAppchain"},
	"ServiceManager":  {"RegisterService", "UpdateService", "FreezeService", "ActivateService", "LogoutService"},
	"RuleManager":     {"RegisterRule", "UpdateMasterRule", "LogoutRule"},
	"Governance":      {"Vote"},
	"RoleManager":     {"FreezeRole", "ActivateRole", "LogoutRole"},
	"NodeManager":     {"LogoutNode", "UpdateNode"},
	"GovStrategy":     {"UpdateProposalStrategy", "UpdateAllProposalStrategy"},
	"DappManager":     {"FreezeDapp", "ActivateDapp"},
}

// callbacks without a caller check of their own whose effect is meant to depend only on what the calling contract
// set up in the same transaction ("proposal ... ending"): exercised directly by an external account they must
// change nothing
var callbackNoEffect = map[string][]string{
	"Governance": {"ZeroPermission"},
}

func inList(m map[string][]string, c, n string) bool {
	for _, x := range m[c] {
		if x == n {
			return true
		}
	}
	return false
}

func isViewName(n string) bool {
	for _, p := range []string{"Get", "Is", "Count", "Has", "Check", "Appchains", "Nodes", "Rules", "Current"} {
		if strings.HasPrefix(n, p) {
			return true
		}
	}
	return false
}

// idPool: live identifiers of the run plus garbage, for string arguments
func (s *scn) idPool() []string {
	bxh := s.cfg.World.ChainID
	p := []string{"", "x", "a:b", "a:b:c:d", "1356:chainA", "chain-A:s-1", "approve", "reject", "register", "freeze", "activate", "logout", "update", "pause", "unpause",
		"available", "frozen", "forbidden", "registing", "governanceAdmin", "appchainAdmin", "auditAdmin", "appchain_mgr", "service_mgr", "rule_mgr", "role_mgr", "node_mgr", "dapp_mgr",
		"SimpleMajority", "ZeroPermission", "a > 0.5 * t", "a >= 1", happyRule, "reason", "vpNode", "nvpNode"}
	for _, c := range s.chains {
		// (addresses also in the all-lower-case spelling a client may just as well send)
		p = append(p, c.id, c.admin.Addr.String(), strings.ToLower(c.admin.Addr.String()))
		for _, sv := range c.services {
			p = append(p, c.id+":"+sv.id, sv.full(bxh))
		}
	}
	for i := 0; i < s.cfg.World.Admins; i++ {
		p = append(p, s.cfg.World.adminKey(i).Addr.String(), strings.ToLower(s.cfg.World.adminKey(i).Addr.String()))
	}
	for _, u := range s.users {
		p = append(p, u.Addr.String())
	}
	ids := s.ibtp.order
	if len(ids) > 6 {
		ids = ids[len(ids)-6:]
	}
	p = append(p, ids...)
	pr := s.proposals
	if len(pr) > 8 {
		pr = pr[len(pr)-8:]
	}
	p = append(p, pr...)
	return p
}

// templates: argument vectors that pass the entry checks of the multi-argument governance operations, so that a
// single perturbed argument reaches the code behind those checks (a uniformly random vector almost never does).
func (s *scn) templates(r *sim.Rand) map[string][]*pb.Arg {
	u := fmt.Sprint(r.Intn(10000))
	c := s.chains[r.Intn(len(s.chains))]
	sv := c.services[r.Intn(len(c.services))]
	fresh := keyFor("tmpl-" + u).Addr.String()
	if r.Chance(0.25) {
		// an account somebody else holds already, spelled in lower case
		taken := []string{c.admin.Addr.String(), s.cfg.World.adminKey(r.Intn(s.cfg.World.Admins)).Addr.String()}
		fresh = strings.ToLower(taken[r.Intn(len(taken))])
	}
	S, U, B := pb.String, pb.Uint64, pb.Bytes
	outsider := s.users[len(s.users)-1].Addr.String()
	prop := ""
	if len(s.proposals) > 0 {
		prop = s.proposals[len(s.proposals)-1-r.Intn(min(len(s.proposals), 4))]
	}
	if n := len(s.outsiderProposals); n > 0 && r.Chance(0.5) {
		prop = s.outsiderProposals[n-1-r.Intn(min(n, 2))]
	}
	return map[string][]*pb.Arg{
		// (the admin list has to name the caller: the account that plays the outsider, alone or with a second administrator)
		"AppchainManager.RegisterAppchain": {S("chain" + u), S("name" + u), B(nil), S("ETH"), B(nil), S("broker"), S("desc"), S(happyRule), S("url"), S([]string{outsider, outsider + "," + fresh, fresh}[r.Intn(3)]), S("reason")},
		"AppchainManager.UpdateAppchain":   {S(c.id), S("name-" + c.id + u), S("desc2"), B(nil), S(c.admin.Addr.String()), S("reason")},
		"ServiceManager.RegisterService":   {S(c.id), S("svc" + u), S("nm" + u), S("CallContract"), S("intro"), U(1), S(""), S("details"), S("reason")},
		// name and details as registered: intro/permits alone take the no-proposal path
		"ServiceManager.UpdateService":       {S(c.id + ":" + sv.id), S("nm-" + c.id + sv.id), S("intro" + u), S([]string{"", sv.full(s.cfg.World.ChainID)}[r.Intn(2)]), S("details"), S("reason")},
		"ServiceManager.EvaluateService":     {S(c.id + ":" + sv.id), S("fine"), {Type: pb.Arg_F64, Value: []byte("4.5")}},
		"DappManager.RegisterDapp":           {S("dapp" + u), S("tool"), S("desc"), S("http://dapp" + u), S(fresh), S(""), S("reason")},
		"DappManager.TransferDapp":           {S(fresh + "-0"), S(s.users[0].Addr.String()), S("reason")},
		"RuleManager.RegisterRule":           {S(c.id), S(happyRule), S("url")},
		"RuleManager.UpdateMasterRule":       {S(c.id), S(happyRule), S("reason")},
		"RuleManager.LogoutRule":             {S(c.id), S(happyRule)},
		"RoleManager.RegisterRole":           {S(fresh), S("governanceAdmin"), S(""), S("reason")},
		"NodeManager.RegisterNode":           {S(fresh), S("vpNode"), S("QmPid" + u), U(uint64(5 + r.Intn(3))), S("node" + u), S(""), S("reason")},
		"GovStrategy.UpdateProposalStrategy": {S("service_mgr"), S("SimpleMajority"), S("a >= 1"), S("reason")},
		"Governance.Vote":                    {S(prop), S("approve"), S("reason")},
		"Governance.WithdrawProposal":        {S(prop), S("reason")},
		// the plain lifecycle operations on live objects (an argument pool of some eighty strings almost never puts a live id
		// into the right position of the right method)
		"AppchainManager.FreezeAppchain":   {S(c.id), S("reason")},
		"AppchainManager.ActivateAppchain": {S(c.id), S("reason")},
		"AppchainManager.LogoutAppchain":   {S(c.id), S("reason")},
		"ServiceManager.FreezeService":     {S(c.id + ":" + sv.id), S("reason")},
		"ServiceManager.ActivateService":   {S(c.id + ":" + sv.id), S("reason")},
		"ServiceManager.LogoutService":     {S(c.id + ":" + sv.id), S("reason")},
		"RoleManager.FreezeRole":           {S(s.cfg.World.adminKey(r.Intn(s.cfg.World.Admins)).Addr.String()), S("reason")},
		"RoleManager.ActivateRole":         {S(s.cfg.World.adminKey(r.Intn(s.cfg.World.Admins)).Addr.String()), S("reason")},
		"RoleManager.LogoutRole":           {S(s.cfg.World.adminKey(r.Intn(s.cfg.World.Admins)).Addr.String()), S("reason")},
	}
}

// nearMiss: values that pass a superficial check but not the one behind it
var nearMiss = []string{"0x1234", "0x", "1234", "0x00000000000000000000000000000000000000a", "00000000000000000000000000000000000000a1", "0x00000000000000000000000000000000000000zz",
	"tool", "Tool", "CallContract", "Fabric V1.4.3", "relaychain", "a > t", "a >= 0.5 * t", ",", ",,", "0x0000000000000000000000000000000000000000", " "}

// typedArgs draws one argument vector matching the method's signature; types that cannot be
// expressed as a transaction argument get a string (the call then fails inside dispatch).
func (s *scn) typedArgs(r *sim.Rand, mi methodInfo) ([]*pb.Arg, string) {
	pool := s.idPool()
	var args []*pb.Arg
	var desc []string
	if tmpl, ok := s.templates(r)[mi.contract+"."+mi.name]; ok && len(tmpl) == len(mi.in) && r.Chance(0.7) {
		what := "valid"
		if r.Chance(0.75) {
			i := r.Intn(len(tmpl))
			if tmpl[i].Type == pb.Arg_String {
				v := nearMiss[r.Intn(len(nearMiss))]
				if r.Chance(0.5) {
					v = pool[r.Intn(len(pool))]
				}
				tmpl[i] = pb.String(v)
				what = fmt.Sprintf("arg%d=%q", i, v)
			} else if tmpl[i].Type == pb.Arg_U64 {
				v := []uint64{0, 1, 2, 1 << 63, ^uint64(0)}[r.Intn(5)]
				tmpl[i] = pb.Uint64(v)
				what = fmt.Sprintf("arg%d=%d", i, v)
			} else {
				v := r.Bytes(r.Intn(40))
				tmpl[i] = pb.Bytes(v)
				what = fmt.Sprintf("arg%d=0x%x", i, v[:min(len(v), 8)])
			}
		}
		s.res.Count("probe_template_call")
		return tmpl, "template/" + what
	}
	n := len(mi.in)
	if r.Chance(0.08) {
		n = r.Intn(n + 2) // wrong argument count
	}
	for i := 0; i < n; i++ {
		var t reflect.Type
		if i < len(mi.in) {
			t = mi.in[i]
		} else {
			t = reflect.TypeOf("")
		}
		if r.Chance(0.04) {
			t = reflect.TypeOf(uint64(0)) // wrong argument type
		}
		switch t.Kind() {
		case reflect.String:
			v := pool[r.Intn(len(pool))]
			if mi.contract == "TransactionManager" && len(s.ibtp.order) > 0 && r.Chance(0.7) {
				// an id of a transaction that is (or recently was) in flight
				ids := s.ibtp.order
				if len(ids) > 8 {
					ids = ids[len(ids)-8:]
				}
				v = ids[r.Intn(len(ids))]
			}
			if r.Chance(0.4) && len(s.pairs) > 0 {
				// a live service of another party
				p := s.pairs[r.Intn(len(s.pairs))]
				v = []string{p.src.full(s.cfg.World.ChainID), p.src.chain.id + ":" + p.src.id, p.src.chain.id}[r.Intn(3)]
			}
			args = append(args, pb.String(v))
			desc = append(desc, fmt.Sprintf("%q", v))
		case reflect.Uint64:
			v := []uint64{0, 1, 2, 10, 1 << 63, ^uint64(0)}[r.Intn(6)]
			args = append(args, pb.Uint64(v))
			desc = append(desc, fmt.Sprint(v))
		case reflect.Int32:
			v := []int32{0, 1, 2, 3, -1, 1 << 30}[r.Intn(6)]
			args = append(args, pb.Int32(v))
			desc = append(desc, fmt.Sprint(v))
		case reflect.Int64:
			v := []int64{0, 1, -1, 1 << 62}[r.Intn(4)]
			args = append(args, pb.Int64(v))
			desc = append(desc, fmt.Sprint(v))
		case reflect.Bool:
			v := r.Chance(0.5)
			args = append(args, pb.Bool(v))
			desc = append(desc, fmt.Sprint(v))
		case reflect.Float64:
			v := []float64{0, 1, 4.5, -1, 1e308}[r.Intn(5)]
			args = append(args, &pb.Arg{Type: pb.Arg_F64, Value: []byte(fmt.Sprint(v))})
			desc = append(desc, fmt.Sprint(v))
		case reflect.Slice:
			var v []byte
			switch r.Intn(5) {
			case 0:
				v = nil
			case 1:
				v = []byte("{}")
			case 2:
				v = []byte(`{"addresses":["0x01"]}`)
			case 3:
				v = r.Bytes(r.Range(1, 40))
			case 4:
				ib := &pb.IBTP{From: pool[r.Intn(len(pool))], To: pool[r.Intn(len(pool))], Index: uint64(r.Intn(3))}
				v, _ = ib.Marshal()
			}
			args = append(args, pb.Bytes(v))
			desc = append(desc, "0x"+hex.EncodeToString(v[:min(len(v), 8)]))
		default:
			v := pool[r.Intn(len(pool))]
			args = append(args, pb.String(v))
			desc = append(desc, fmt.Sprintf("%q(for %s)", v, t))
		}
	}
	return args, strings.Join(desc, ",")
}

// applyCall issues one direct call of an enumerated method by a drawn role.
func (s *scn) applyCall(st CStep) {
	ms := s.surface()
	if len(ms) == 0 {
		return
	}
	// C and M select a method: contract-major so that every contract gets its share
	var byContract [][]methodInfo
	last := ""
	for _, m := range ms {
		if m.addr != last {
			byContract = append(byContract, nil)
			last = m.addr
		}
		byContract[len(byContract)-1] = append(byContract[len(byContract)-1], m)
	}
	c := byContract[((st.C%len(byContract))+len(byContract))%len(byContract)]
	if st.C < 0 {
		// the statement singles out interchain counters and records: the interchain contract gets a larger share
		for _, bc := range byContract {
			if bc[0].contract == "InterchainManager" {
				c = bc
			}
		}
	}
	mi := c[((st.N%len(c))+len(c))%len(c)]
	r := sim.NewRand(uint64(st.A)*1000003 + uint64(st.B))
	if st.B%3 == 1 {
		// a third of the calls go to the entry points the statement reserves for contract-to-contract use
		var io []methodInfo
		for _, m := range ms {
			if inList(internalOnly, m.contract, m.name) {
				io = append(io, m)
			}
		}
		if len(io) > 0 {
			mi = io[((st.N%len(io))+len(io))%len(io)]
		}
	}
	if st.B%3 == 0 {
		// a third of the calls go to the operations that have a template (see templates)
		var tm []methodInfo
		names := s.templates(sim.NewRand(1))
		for _, m := range ms {
			if _, ok := names[m.contract+"."+m.name]; ok {
				tm = append(tm, m)
			}
		}
		if len(tm) > 0 {
			mi = tm[((st.N%len(tm))+len(tm))%len(tm)]
		}
	}
	args, desc := s.typedArgs(r, mi)
	chain := s.chains[st.A%len(s.chains)]
	role := st.Role
	if role == "" {
		role = "outsider"
	}
	k := s.roleKey(role, chain)
	tx := s.b.bvmAddr(k, types.NewAddressByStr(mi.addr), mi.name, args...)
	s.add(tx, &txMeta{kind: "call", sender: k, note: mi.contract + "." + mi.name + "/" + role, call: &mi, callArgs: desc})
}

// afterBlockCalls: the part of the C17 oracle that needs no twin.
func (s *scn) afterBlockCalls(h uint64, txs []*pb.BxhTransaction, metas []*txMeta, ref *blockResult) {
	for i, mt := range metas {
		if mt.kind != "call" || mt.call == nil || i >= len(ref.Receipts) {
			continue
		}
		rc := ref.Receipts[i]
		ok := rc.Status == pb.Receipt_SUCCESS
		role := mt.note[strings.LastIndex(mt.note, "/")+1:]
		s.res.Count("calls")
		s.res.State("call", mt.call.contract, mt.call.name, role, ok)
		if ok {
			s.res.Count("calls_succeeded")
		}
		if ok && role == "outsider" && len(rc.Ret) > 15 && rc.Ret[0] == '{' {
			// proposals the outsider submitted itself (it may withdraw them)
			g := &governance.GovernanceResult{}
			if json.Unmarshal(rc.Ret, g) == nil && g.ProposalID != "" {
				s.outsiderProposals = append(s.outsiderProposals, g.ProposalID)
				s.res.Count("probe_outsider_submitted_a_proposal")
			}
		}
		if ok && role == "outsider" && mt.call.name == "WithdrawProposal" {
			s.res.Count("probe_outsider_withdrew_a_proposal")
		}
		if inList(internalOnly, mt.call.contract, mt.call.name) {
			s.res.Count("calls_internal_entry_points")
			if ok {
				s.vio("C17", "internal-entry-point-callable", mt.call.contract+"."+mt.call.name, "block %d tx %d: %s.%s(%s) called directly by an external account (%s) succeeded; it exists for contract-to-contract use only", h, i, mt.call.contract, mt.call.name, mt.callArgs, role)
			}
		}
		if role == "formeradmin" && inList(privileged, mt.call.contract, mt.call.name) {
			s.res.Count("calls_privileged_by_former_chain_admin")
			if ok {
				s.vio("C17", "privileged-operation-by-former-chain-admin", mt.call.contract+"."+mt.call.name, "block %d tx %d: %s.%s(%s) succeeded for an account that was removed from the chain's admins by an approved update", h, i, mt.call.contract, mt.call.name, mt.callArgs)
			}
		}
		if role == "outsider" && inList(privileged, mt.call.contract, mt.call.name) {
			s.res.Count("calls_privileged_by_outsider")
			if ok {
				s.vio("C17", "privileged-operation-by-outsider", mt.call.contract+"."+mt.call.name, "block %d tx %d: %s.%s(%s) succeeded for an account that is neither a chain admin nor a governance admin", h, i, mt.call.contract, mt.call.name, mt.callArgs)
			}
		}
	}
}

// callEffectCheck is invoked by the twin check for a direct call (failed or not): keysChanged are
// the state keys that differ from the run where the call is replaced by an empty transaction.
func (s *scn) callEffectCheck(h uint64, i int, mt *txMeta, rc *pb.Receipt, keysChanged []string) {
	if mt.call == nil {
		return
	}
	role := mt.note[strings.LastIndex(mt.note, "/")+1:]
	ok := rc.Status == pb.Receipt_SUCCESS
	if !ok {
		return // handled by the generic failed-tx oracle
	}
	if isViewName(mt.call.name) && len(keysChanged) > 0 {
		s.vio("C17", "read-method-writes", mt.call.contract+"."+mt.call.name, "block %d tx %d: %s.%s(%s) by %s changed state keys %q", h, i, mt.call.contract, mt.call.name, mt.callArgs, role, trimKeys(keysChanged))
	}
	if inList(callbackNoEffect, mt.call.contract, mt.call.name) {
		s.res.Count("calls_callback_by_external_account")
		if len(keysChanged) > 0 {
			s.vio("C17", "callback-exercised-by-external-account", mt.call.contract+"."+mt.call.name, "block %d tx %d: %s.%s(%s), a contract-to-contract callback, was called directly by an external account (%s), succeeded and changed state keys %q", h, i, mt.call.contract, mt.call.name, mt.callArgs, role, trimKeys(keysChanged))
		}
	}
	if role == "outsider" {
		// ... nor the account bookkeeping of the administrators that were there before the run began (the record
		// that says which role holds an account)
		var occ []string
		for _, k := range keysChanged {
			if _, was := s.setupOccupancy[k]; was {
				occ = append(occ, k)
			}
		}
		if len(occ) > 0 {
			s.vio("C17", "outsider-changed-account-bookkeeping", mt.call.contract+"."+mt.call.name, "block %d tx %d: %s.%s(%s) by an outsider changed or deleted the account records of other parties: %q", h, i, mt.call.contract, mt.call.name, mt.callArgs, trimKeys(occ))
		}
		// no unprivileged call can reset or delete another party's interchain counters or records
		var hit []string
		for _, k := range keysChanged {
			if len(k) > 20 {
				owner, sub := k[:20], k[20:]
				ic := string(constant.InterchainContractAddr.Address().Bytes())
				tm := string(constant.TransactionMgrContractAddr.Address().Bytes())
				if (owner == ic && (strings.HasPrefix(sub, "service-") || strings.HasPrefix(sub, "index-tx-") || strings.HasPrefix(sub, "index-receipt-tx-"))) ||
					(owner == tm && (strings.HasPrefix(sub, "tx-") || strings.HasPrefix(sub, "global-tx-") || strings.HasPrefix(sub, "timeout-"))) {
					hit = append(hit, k)
				}
			}
		}
		if len(hit) > 0 && s.touchesExisting(hit) {
			s.vio("C17", "outsider-changed-interchain-records", mt.call.contract+"."+mt.call.name, "block %d tx %d: %s.%s(%s) by an outsider changed interchain counters/records of other parties: %q", h, i, mt.call.contract, mt.call.name, mt.callArgs, trimKeys(hit))
		}
	}
}

// touchesExisting: at least one of the keys existed before the block on the twin (i.e. belongs to someone)
func (s *scn) touchesExisting(keys []string) bool {
	d := s.twin.stateDump()
	have := map[string]bool{}
	for _, kv := range d {
		have[kv[0]] = true
	}
	for _, k := range keys {
		if have[k] {
			return true
		}
	}
	return false
}

// applyOccupyCycle: the outsider applies for an appchain of its own and names a second administrator — a fresh
// account, or an account somebody else holds already (a chain admin, a governance admin), spelled as registered, in
// lower case or in upper case — and then (N odd) withdraws the application again. Every call goes through the
// outsider oracles like any other direct call; each is a block of its own so that the twin judges it.
func (s *scn) applyOccupyCycle(st CStep) {
	var reg, wd *methodInfo
	for i, m := range s.surface() {
		if m.contract == "AppchainManager" && m.name == "RegisterAppchain" {
			reg = &s.surface()[i]
		}
		if m.contract == "Governance" && m.name == "WithdrawProposal" {
			wd = &s.surface()[i]
		}
	}
	if reg == nil || wd == nil {
		return
	}
	o := s.users[len(s.users)-1]
	taken := []string{s.chains[st.A%len(s.chains)].admin.Addr.String(), s.cfg.World.adminKey(st.A % s.cfg.World.Admins).Addr.String()}
	second := taken[st.A%2]
	switch st.N % 3 {
	case 0:
		second = strings.ToLower(second)
	case 1:
		second = "0x" + strings.ToUpper(second[2:])
	}
	if st.N >= 4 {
		second = keyFor(fmt.Sprintf("second-admin-%d", st.B)).Addr.String()
	}
	u := fmt.Sprintf("occ%d", st.B)
	S, B := pb.String, pb.Bytes
	s.flush()
	args := []*pb.Arg{S("chain" + u), S("name" + u), B(nil), S("ETH"), B(nil), S("broker"), S("desc"), S(happyRule), S("url"), S(o.Addr.String() + "," + second), S("reason")}
	s.add(s.b.bvmAddr(o, types.NewAddressByStr(reg.addr), reg.name, args...), &txMeta{kind: "call", sender: o, note: reg.contract + "." + reg.name + "/outsider", call: reg, callArgs: "second admin " + second})
	rs := s.flush()
	if rs == nil || len(rs.Receipts) == 0 {
		return
	}
	rc := rs.Receipts[len(rs.Receipts)-1]
	g := &governance.GovernanceResult{}
	if rc.Status != pb.Receipt_SUCCESS || json.Unmarshal(rc.Ret, g) != nil || g.ProposalID == "" || st.N%2 == 0 {
		return
	}
	s.add(s.b.bvmAddr(o, types.NewAddressByStr(wd.addr), wd.name, S(g.ProposalID), S("reason")), &txMeta{kind: "call", sender: o, note: wd.contract + "." + wd.name + "/outsider", call: wd, callArgs: "own proposal"})
	s.flush()
	s.res.Count("probe_outsider_application_withdrawn")
}

// applyZeroSwitch: a proposal of one module is left open, that module's voting strategy is then switched (to
// ZeroPermission or to another expression) by a voted strategy update, and the outsider exercises the governance
// contract's proposal callbacks on the open proposal. Each direct call is a block of its own so that the twin judges it.
func (s *scn) applyZeroSwitch(st CStep) {
	find := func(c, n string) *methodInfo {
		for i, m := range s.surface() {
			if m.contract == c && m.name == n {
				return &s.surface()[i]
			}
		}
		return nil
	}
	c := s.chains[st.A%len(s.chains)]
	S := pb.String
	s.flush()
	// 1. an operation of the chain's own admin that needs a vote stays open
	module := []string{"appchain_mgr", "service_mgr"}[st.N%2]
	var tx *pb.BxhTransaction
	if module == "appchain_mgr" {
		tx = s.b.bvm(c.admin, constant.AppchainMgrContractAddr, "UpdateAppchain", S(c.id), S(fmt.Sprintf("name-%s-z%d", c.id, st.B)), S("desc"), pb.Bytes(nil), S(c.admin.Addr.String()), S("reason"))
	} else {
		sv := c.services[st.B%len(c.services)]
		tx = s.b.bvm(c.admin, constant.ServiceMgrContractAddr, "LogoutService", S(c.id+":"+sv.id), S("reason"))
	}
	s.add(tx, &txMeta{kind: "gov", sender: c.admin, note: "open-proposal/" + module, target: c.id})
	rs := s.flush()
	if rs == nil || len(rs.Receipts) == 0 {
		return
	}
	rc := rs.Receipts[len(rs.Receipts)-1]
	g := &governance.GovernanceResult{}
	if rc.Status != pb.Receipt_SUCCESS || json.Unmarshal(rc.Ret, g) != nil || g.ProposalID == "" {
		return
	}
	pid := g.ProposalID
	// 2. the module's strategy is updated by the administrators
	typ, extra := "ZeroPermission", ""
	if st.N%5 == 4 {
		typ, extra = "SimpleMajority", "a >= 1"
	}
	a0 := s.cfg.World.adminKey(0)
	if !s.govApprove(a0, constant.ProposalStrategyMgrContractAddr, "update-strategy/"+module+"/"+typ, module, "UpdateProposalStrategy", S(module), S(typ), S(extra), S("reason")) {
		return
	}
	s.res.Count("probe_strategy_switched_with_open_proposal")
	// 3. the outsider exercises the proposal callbacks on the open proposal
	o := s.users[len(s.users)-1]
	for _, name := range []string{"ZeroPermission", "EndObjProposal", "UnLockLowPriorityProposal"} {
		mi := find("Governance", name)
		if mi == nil {
			continue
		}
		var args []*pb.Arg
		switch name {
		case "ZeroPermission":
			args = []*pb.Arg{S(pid)}
		case "EndObjProposal":
			args = []*pb.Arg{S(c.id), S("reason"), pb.Bytes(nil)}
		default:
			args = []*pb.Arg{S(c.id), S("update")}
		}
		if len(args) != len(mi.in) {
			continue
		}
		s.add(s.b.bvmAddr(o, types.NewAddressByStr(mi.addr), mi.name, args...), &txMeta{kind: "call", sender: o, note: mi.contract + "." + mi.name + "/outsider", call: mi, callArgs: "open proposal " + pid})
		s.flush()
	}
}

// applyAdminSwap: the admin X of an appchain adds a second admin Y through an approved update, Y then submits an admin
// list without X (approved): X is no longer an admin of the chain. Afterwards X sends the operations reserved to the
// chain's own admin; they must fail for it as for everybody else ("formeradmin" in the call oracles).
func (s *scn) applyAdminSwap(st CStep) {
	find := func(c, n string) *methodInfo {
		for i, m := range s.surface() {
			if m.contract == c && m.name == n {
				return &s.surface()[i]
			}
		}
		return nil
	}
	c := s.chains[st.A%len(s.chains)]
	if c.swapped {
		return
	}
	x := c.admin
	y := keyFor(fmt.Sprintf("second-admin-of-%s", c.id))
	S := pb.String
	// Y needs funds for its fees
	s.flush()
	s.add(s.b.transfer(s.cfg.World.adminKey(0), y.Addr, "1000000000000000000000"), &txMeta{kind: "setup", sender: s.cfg.World.adminKey(0)})
	s.flush()
	if !s.govApprove(x, constant.AppchainMgrContractAddr, "update-chain/chainadmin/"+c.id, c.id, "UpdateAppchain", S(c.id), S("name-"+c.id), S("desc"), pb.Bytes(nil), S(x.Addr.String()+","+y.Addr.String()), S("reason")) {
		return
	}
	if !s.govApprove(y, constant.AppchainMgrContractAddr, "update-chain/chainadmin/"+c.id, c.id, "UpdateAppchain", S(c.id), S("name-"+c.id), S("desc"), pb.Bytes(nil), S(y.Addr.String()), S("reason")) {
		return
	}
	// did the node take the new list? (read back, not assumed)
	rcs := s.reps[0].viewCall(viewTx(s.users[0], constant.AppchainMgrContractAddr, "GetAdminByChainId", S(c.id)))
	var admins []string
	if len(rcs) != 1 || rcs[0] == nil || rcs[0].Status != pb.Receipt_SUCCESS || json.Unmarshal(rcs[0].Ret, &admins) != nil {
		return
	}
	list := strings.ToLower(strings.Join(admins, ","))
	if strings.Contains(list, strings.ToLower(x.Addr.String())) || !strings.Contains(list, strings.ToLower(y.Addr.String())) {
		return // the replacement did not go through (refused or still pending)
	}
	c.swapped, c.admin = true, y
	s.res.Count("probe_chain_admin_replaced")
	// X's account is free again: it is no longer one of the parties whose bookkeeping records the outsider must not touch
	for k := range s.setupOccupancy {
		if strings.HasSuffix(strings.ToLower(k), strings.ToLower(x.Addr.String())) {
			delete(s.setupOccupancy, k)
		}
	}
	sv := c.services[0]
	calls := []struct {
		contract, name string
		args           []*pb.Arg
	}{
		{"ServiceManager", "RegisterService", []*pb.Arg{S(c.id), S("sfa"), S("nm-fa"), S("CallContract"), S("intro"), pb.Uint64(1), S(""), S("details"), S("reason")}},
		{"ServiceManager", "LogoutService", []*pb.Arg{S(c.id + ":" + sv.id), S("reason")}},
		{"RuleManager", "UpdateMasterRule", []*pb.Arg{S(c.id), S(happyRule), S("reason")}},
		{"RuleManager", "LogoutRule", []*pb.Arg{S(c.id), S(happyRule)}},
		{"AppchainManager", "UpdateAppchain", []*pb.Arg{S(c.id), S("name-by-former-admin"), S("desc"), pb.Bytes(nil), S(x.Addr.String()), S("reason")}},
		{"AppchainManager", "LogoutAppchain", []*pb.Arg{S(c.id), S("reason")}},
	}
	if s.bitAddr != "" {
		// a rule the chain has not registered yet (deployed in the prologue): registering it, and making it the master, are
		// the chain's own admin's business too
		calls = append(calls, struct {
			contract, name string
			args           []*pb.Arg
		}{"RuleManager", "RegisterRule", []*pb.Arg{S(c.id), S(s.bitAddr), S("url")}})
	}
	for j, cl := range calls {
		if (st.N>>uint(j%6))&1 == 0 && j != st.B%len(calls) {
			continue
		}
		mi := find(cl.contract, cl.name)
		if mi == nil || len(mi.in) != len(cl.args) {
			continue
		}
		s.add(s.b.bvmAddr(x, types.NewAddressByStr(mi.addr), mi.name, cl.args...), &txMeta{kind: "call", sender: x, note: mi.contract + "." + mi.name + "/formeradmin", call: mi, callArgs: "chain " + c.id})
		s.flush()
	}
}
