package chainsim

import (
	"fmt"
	"strings"

	"github.com/bytecodealliance/wasmtime-go"
	"github.com/meshplus/bitxhub-kit/types"
	"github.com/meshplus/bitxhub-model/pb"
)

// ---------------------------------------------------------------------------------------------
// A user WASM contract with storage. Every method writes one record of the contract account through
// the ledger imports the node offers to WASM code (set_state / add_state), and then either returns,
// traps (contract error) or spins until the fuel is gone (out-of-gas). A transaction that ends in a
// trap or without fuel has a FAILED receipt; the records it wrote before must be gone (C07), on
// every replica alike (C01). The keys are few, so that a failing transaction rewrites records that
// earlier blocks or earlier transactions of the same block stored.
const kvWat = `(module
  (import "env" "set_state" (func $set (param i32 i32)))
  (import "env" "add_state" (func $add (param i32 i32)))
  (import "env" "get_state" (func $get (param i32) (result i32)))
  (memory (export "memory") 2)
  (global $next (mut i32) (i32.const 1024))
  (func (export "allocate") (param $n i32) (result i32)
    (local $p i32)
    (local.set $p (global.get $next))
    (global.set $next (i32.add (global.get $next) (local.get $n)))
    (local.get $p))
  (func (export "deallocate") (param i32 i32))
  (func (export "put") (param $k i32) (param $v i32) (result i32)
    (call $set (local.get $k) (local.get $v)) (i32.const 1))
  (func (export "add") (param $k i32) (param $v i32) (result i32)
    (call $add (local.get $k) (local.get $v)) (i32.const 1))
  (func (export "put_trap") (param $k i32) (param $v i32) (result i32)
    (call $set (local.get $k) (local.get $v)) (unreachable))
  (func (export "add_trap") (param $k i32) (param $v i32) (result i32)
    (call $add (local.get $k) (local.get $v)) (unreachable))
  (func (export "put_spin") (param $k i32) (param $v i32) (result i32)
    (call $set (local.get $k) (local.get $v)) (loop $l (br $l)) (i32.const 1))
  (func (export "add_spin") (param $k i32) (param $v i32) (result i32)
    (call $add (local.get $k) (local.get $v)) (loop $l (br $l)) (i32.const 1))
  (func (export "put2_trap") (param $k i32) (param $v i32) (result i32)
    (call $add (local.get $k) (local.get $v)) (call $set (local.get $k) (local.get $k)) (unreachable))
  (func (export "put_reuse") (param $k i32) (param $v i32) (result i32)
    ;; writes the record, then goes on using the buffer the value was passed in (as a contract that frees or
    ;; recycles its buffers does): the record must keep the value it was given
    (call $set (local.get $k) (local.get $v)) (i32.store8 (local.get $v) (i32.const 88)) (i32.const 1))
  (func (export "add_reuse") (param $k i32) (param $v i32) (result i32)
    (call $add (local.get $k) (local.get $v)) (i32.store8 (local.get $v) (i32.const 89)) (i32.const 1))
  (func (export "burn") (param $k i32) (param $v i32) (result i32)
    ;; writes the record, then loops as many times as the decimal number in the value says: a call whose cost is
    ;; bounded and lies near the operator's gas limit (succeeds just below it, runs out of gas just above it)
    (local $n i32) (local $p i32) (local $c i32)
    (call $set (local.get $k) (local.get $v))
    (local.set $p (local.get $v))
    (block $done
      (loop $parse
        (local.set $c (i32.load8_u (local.get $p)))
        (br_if $done (i32.lt_u (local.get $c) (i32.const 48)))
        (br_if $done (i32.gt_u (local.get $c) (i32.const 57)))
        (local.set $n (i32.add (i32.mul (local.get $n) (i32.const 10)) (i32.sub (local.get $c) (i32.const 48))))
        (local.set $p (i32.add (local.get $p) (i32.const 1)))
        (br $parse)))
    (block $out
      (loop $spin
        (br_if $out (i32.eqz (local.get $n)))
        (local.set $n (i32.sub (local.get $n) (i32.const 1)))
        (br $spin)))
    (i32.const 1))
  (func (export "read") (param $k i32) (param $v i32) (result i32)
    (drop (call $get (local.get $k))) (i32.const 1)))`

var kvWasm = func() []byte {
	b, err := wasmtime.Wat2Wasm(kvWat)
	if err != nil {
		panic(err)
	}
	return b
}()

// (running out of gas burns the whole block gas limit in the WASM engine, a tenth of a second: rare)
var kvMethods = []string{"put", "add", "put_trap", "add_trap", "put_spin", "put2_trap", "read", "put", "add", "add_trap", "no_such_method", "put",
	"add", "add_trap", "put_trap", "add_spin", "put2_trap", "read", "put", "add", "add_trap", "put_trap", "add", "put", "put_reuse", "add_reuse", "put_reuse", "burn", "burn", "burn"}

func (s *scn) deployKV() bool {
	u := s.users[0]
	s.add(s.b.xvmDeploy(u, kvWasm), &txMeta{kind: "setup", sender: u})
	rs := s.flush()
	if rs == nil || len(rs.Receipts) == 0 {
		return false
	}
	rc := rs.Receipts[len(rs.Receipts)-1]
	if rc.Status != pb.Receipt_SUCCESS {
		s.res.Aborted = "setup: storage contract deploy failed: " + string(rc.Ret)
		return false
	}
	s.kvAddr = types.NewAddress(rc.Ret)
	return true
}

// applyKV: one invocation of the storage contract (A sender, B key, N method).
func (s *scn) applyKV(st CStep) {
	if s.kvAddr == nil {
		return
	}
	sender := s.actor(st.A)
	m := kvMethods[st.N%len(kvMethods)]
	s.kvSeq++
	key := fmt.Sprintf("rec%d", st.B%3)
	val := fmt.Sprintf("v%d", s.kvSeq)
	if m == "burn" {
		gl := s.cfg.World.GasLimit
		if gl == 0 || gl > 3000000 {
			m = "put" // (with the shipped limit of 100 M a call near the limit takes too long)
		} else {
			// a loop iteration costs a handful of fuel units: the factors put the call's cost on either side of the limit
			f := []uint64{3, 6, 9, 12, 16, 25, 40}[st.A%7]
			val = fmt.Sprintf("%d", gl*f/40)
		}
	}
	tx := s.b.xvmInvoke(sender, s.kvAddr, m, pb.String(key), pb.String(val))
	s.add(tx, &txMeta{kind: "kv", sender: sender, note: m + "/" + key, kvKey: key, kvVal: val, kvMethod: m})
	s.res.Count("kv_" + m)
}

// kvAfterBlock: node-level form of C13 for the records of the storage contract: after every block each record reads
// back (through the read-write ledger, as the API's storage query does) as the value of the last successful write in
// execution order; a transaction with a FAILED receipt writes nothing.
func (s *scn) kvAfterBlock(h uint64, metas []*txMeta, ref *blockResult) {
	if s.kvAddr == nil || s.inSetup {
		return
	}
	if s.kvModel == nil {
		s.kvModel = map[string]string{}
	}
	for i, mt := range metas {
		if mt.kind != "kv" || i >= len(ref.Receipts) || ref.Receipts[i].Status != pb.Receipt_SUCCESS {
			continue
		}
		switch mt.kvMethod {
		case "put", "add", "put_reuse", "add_reuse", "burn":
			s.kvModel[mt.kvKey] = mt.kvVal
		}
	}
	// what the state store holds (the executor persists a block before it announces it) ...
	stored := map[string]string{}
	pre := string(s.kvAddr.Bytes())
	for _, kv := range s.reps[0].stateDump() {
		if strings.HasPrefix(kv[0], pre) {
			stored[kv[0][len(pre):]] = kv[1]
		}
	}
	for _, k := range []string{"rec0", "rec1", "rec2"} {
		want, written := s.kvModel[k]
		if !written {
			continue
		}
		s.res.Count("probe_kv_record_read_back")
		got, ok := stored[k]
		if !ok || got != want {
			s.vio("C13", "contract-record", "stored-value", "after block %d: record %s of the storage contract is stored as %q (present=%v), the last successful write in execution order wrote %q", h, k, got, ok, want)
			s.kvModel[k] = got
			continue
		}
		// ... and what the read-write ledger answers (the API's storage query). Not while the in-line API reader of
		// this replica is active: its queries run on the executor's goroutine up to the end of processExecuteEvent,
		// concurrently with this one, and the harness must not judge an interleaving it does not control.
		if s.reps[0].pol.ApiReader > 0 {
			continue
		}
		if ok2, got2 := s.reps[0].lg.GetState(s.kvAddr, []byte(k)); !ok2 || string(got2) != want {
			s.vio("C13", "contract-record", "value", "after block %d: record %s of the storage contract reads %q (present=%v), the last successful write in execution order wrote %q", h, k, got2, ok2, want)
		}
	}
}
