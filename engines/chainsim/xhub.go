package chainsim

import (
	"fmt"

	"github.com/meshplus/bitxhub-model/pb"
)

// One-to-one traffic from a local service to a service under the other BitXHub: this node is the SOURCE hub
// (C04: "between two BitXHubs also to FAILURE or ROLLBACK on the destination hub's signed begin-failure/rollback
// notice"). Requests are proven like any request of the local appchain; receipts come back from the other hub and are
// proven by its validators' signatures; a notice is a request-category IBTP with the id of an accepted request that
// carries the destination hub's verdict (BEGIN_FAILURE / BEGIN_ROLLBACK) in its Extra field.
func (s *scn) applyXhub(st CStep) {
	if s.cfg.Relay <= 0 || len(s.chains) == 0 {
		return
	}
	var srcs []*mService
	for _, c := range s.chains {
		srcs = append(srcs, c.services...)
	}
	src := srcs[((st.Pair%len(srcs))+len(srcs))%len(srcs)]
	from := src.full(s.cfg.World.ChainID)
	to := fmt.Sprintf("%s:remotechain:svc%d", relayHubID, st.A%2)
	pm := s.ibtp.pair(from, to)
	ib := &pb.IBTP{From: from, To: to, TimeoutHeight: st.T}
	sender := src.chain.admin
	localProof := []byte(fmt.Sprintf("1proof-%d", s.step))
	switch st.Kind {
	case "req", "":
		ib.Type = pb.IBTP_INTERCHAIN
		ib.Index = s.ibtp.pickIndex(pm.reqSubmitted(), st.Idx)
		m := &txMeta{kind: "ibtp", ibtp: ib, sender: sender, proofOK: ruleAccepts(src.chain.rule, localProof), note: "xhub-req/" + st.Idx, judge: src.chain}
		pm.noteReqSubmitted(ib.Index)
		s.add(s.b.ibtpTx(sender, ib, localProof, true), m)
	case "ok", "fail", "rollback":
		status := pb.TransactionStatus_SUCCESS
		switch st.Kind {
		case "ok":
			ib.Type = pb.IBTP_RECEIPT_SUCCESS
		case "fail":
			ib.Type, status = pb.IBTP_RECEIPT_FAILURE, pb.TransactionStatus_FAILURE
		default:
			ib.Type, status = pb.IBTP_RECEIPT_ROLLBACK, pb.TransactionStatus_ROLLBACK
		}
		ib.TimeoutHeight = 0
		ib.Index = s.ibtp.pickIndex(pm.rcptSubmitted(), st.Idx)
		if s.relaySet == nil {
			s.observeRelaySet()
		}
		signers := st.Signers
		if len(signers) == 0 {
			for i := 0; i < s.cfg.Relay; i++ {
				signers = append(signers, i)
			}
		}
		proof, distinct := relayProof(ib, status, signers, s.relaySet)
		valid := s.relayN > 0 && distinct > (s.relayN-1)/3
		m := &txMeta{kind: "ibtp", ibtp: ib, sender: s.users[1%len(s.users)], proofOK: valid, note: fmt.Sprintf("xhub-%s/%s signers=%d/%d distinct-registered=%d", st.Kind, st.Idx, len(signers), s.relayN, distinct)}
		pm.noteRcptSubmitted(ib.Index)
		s.add(s.b.ibtpTx(m.sender, ib, proof, true), m)
	case "nfail", "nrollback":
		verdict := pb.TransactionStatus_BEGIN_FAILURE
		if st.Kind == "nrollback" {
			verdict = pb.TransactionStatus_BEGIN_ROLLBACK
		}
		ib.Type = pb.IBTP_INTERCHAIN
		ib.TimeoutHeight = 0
		// a notice names a request that was accepted: the oldest one without receipt ("next"), or another one
		ib.Index = s.ibtp.pickIndex(pm.rcptSubmitted(), st.Idx)
		bp := &pb.BxhProof{TxStatus: verdict}
		ib.Extra, _ = bp.Marshal()
		m := &txMeta{kind: "notice", ibtp: ib, sender: sender, proofOK: ruleAccepts(src.chain.rule, localProof), note: fmt.Sprintf("xhub-notice-%s/%s", verdict, st.Idx), judge: src.chain}
		s.add(s.b.ibtpTx(sender, ib, localProof, true), m)
	}
}
