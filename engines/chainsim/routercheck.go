package chainsim

import (
	"fmt"
	"sort"

	"github.com/meshplus/bitxhub-model/pb"
	"github.com/meshplus/bitxhub/internal/router"
)

// ---------------------------------------------------------------------------------------------
// The delivery set as an appchain's pier receives it: the real internal/router classifies the stored
// block and its interchain metadata (the path a pier takes when it (re)connects and asks for a height).
// What the pier is handed must be exactly what the executor recorded for that chain: the accepted
// transactions in block order (C02), the timed-out ids (C06) and the multi-transaction ids (C05).

func (r *replica) router() *router.InterchainRouter {
	if r.rt == nil {
		rt, err := router.New(quietLogger, r.repo, r.lg, nil, 0)
		if err != nil {
			return nil
		}
		r.rt = rt
	}
	return r.rt
}

func (s *scn) checkRouter(h uint64, txs []*pb.BxhTransaction, ref *blockResult) {
	if s.inSetup || ref.Meta == nil {
		return
	}
	switch s.prop {
	case "C02", "C05", "C06":
	default:
		return
	}
	rt := s.reps[0].router()
	if rt == nil {
		return
	}
	chains := map[string]bool{}
	for _, c := range s.chains {
		chains[c.id] = true
	}
	for c := range ref.Meta.Counter {
		chains[c] = true
	}
	for c := range ref.Meta.TimeoutCounter {
		chains[c] = true
	}
	for c := range ref.Meta.MultiTxCounter {
		chains[c] = true
	}
	var ids []string
	for c := range chains {
		ids = append(ids, c)
	}
	sort.Strings(ids)
	for _, c := range ids {
		ch := make(chan *pb.InterchainTxWrappers, 4)
		err := func() (err error) {
			defer func() {
				if e := recover(); e != nil {
					err = fmt.Errorf("panic: %v at %s", e, panicSite())
				}
			}()
			return rt.GetInterchainTxWrappers(c, h, h, ch)
		}()
		if err != nil {
			s.vio(s.prop, "pier-delivery", "unavailable", "block %d: the router cannot produce the delivery set of chain %s: %v", h, c, err)
			continue
		}
		var w *pb.InterchainTxWrapper
		for ws := range ch {
			for _, x := range ws.InterchainTxWrappers {
				w = x
			}
		}
		if w == nil {
			s.vio(s.prop, "pier-delivery", "nothing", "block %d: the router produced nothing for chain %s", h, c)
			continue
		}
		s.res.Count("probe_pier_delivery_checked")
		// transactions
		var want, got []string
		if vs := ref.Meta.Counter[c]; vs != nil {
			for _, vi := range vs.Slice {
				if int(vi.Index) < len(txs) {
					want = append(want, txs[vi.Index].GetHash().String())
				}
			}
		}
		for _, vt := range w.Transactions {
			if vt.Tx != nil {
				got = append(got, vt.Tx.GetHash().String())
			}
		}
		if fmt.Sprint(want) != fmt.Sprint(got) {
			s.vio("C02", "pier-delivery", "transactions", "block %d: chain %s is handed %d transactions by the router, the block recorded %d accepted IBTPs for it (timeout ids %d, multi-tx ids %d in the same block)", h, c, len(got), len(want), len(w.TimeoutIbtps), len(w.MultiTxIbtps))
		}
		var wt, wm []string
		if sl := ref.Meta.TimeoutCounter[c]; sl != nil {
			wt = sl.Slice
		}
		if sl := ref.Meta.MultiTxCounter[c]; sl != nil {
			wm = sl.Slice
		}
		if fmt.Sprint(wt) != fmt.Sprint(w.TimeoutIbtps) && (len(wt) > 0 || len(w.TimeoutIbtps) > 0) {
			s.vio("C06", "pier-delivery", "timeouts", "block %d: chain %s is handed timeout ids %v by the router, the block recorded %v", h, c, w.TimeoutIbtps, wt)
		}
		if fmt.Sprint(wm) != fmt.Sprint(w.MultiTxIbtps) && (len(wm) > 0 || len(w.MultiTxIbtps) > 0) {
			s.vio("C05", "pier-delivery", "multi-tx", "block %d: chain %s is handed multi-transaction ids %v by the router, the block recorded %v", h, c, w.MultiTxIbtps, wm)
		}
		if len(want) > 0 && (len(wt) > 0 || len(wm) > 0) {
			s.res.Count("probe_pier_delivery_with_transactions_and_notifications")
		}
	}
}
