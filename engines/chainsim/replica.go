// Package chainsim runs N replicas of the real ledger + block executor + built-in contracts +
// proof pool + VMs, fed an identical ordered block stream by a trivial sequencer, and checks
// C01–C08 and C14–C17 with differential and reference-model oracles.
package chainsim

import (
	"crypto/sha256"
	"encoding/hex"
	"fmt"
	"io"
	"math/big"
	"os"
	"path/filepath"
	"sort"
	"sync"
	"time"

	"github.com/ethereum/go-ethereum/event"
	"github.com/meshplus/bitxhub-kit/crypto"
	"github.com/meshplus/bitxhub-kit/crypto/asym/ecdsa"
	"github.com/meshplus/bitxhub-kit/storage/blockfile"
	"github.com/meshplus/bitxhub-kit/types"
	"github.com/meshplus/bitxhub-model/pb"
	"github.com/meshplus/bitxhub/internal/executor"
	"github.com/meshplus/bitxhub/internal/executor/oracle/appchain"
	"github.com/meshplus/bitxhub/internal/ledger"
	"github.com/meshplus/bitxhub/internal/ledger/genesis"
	"github.com/meshplus/bitxhub/internal/model/events"
	"github.com/meshplus/bitxhub/internal/repo"
	"github.com/meshplus/bitxhub/internal/router"
	"github.com/meshplus/bitxhub/verif/sim"
	types2 "github.com/meshplus/eth-kit/types"
	"github.com/sirupsen/logrus"
)

var quietLogger = func() logrus.FieldLogger {
	l := logrus.New()
	l.SetOutput(io.Discard)
	l.SetLevel(logrus.PanicLevel)
	return l
}()

// keyFor derives a deterministic secp256k1 key from a label (all workload keys come from here).
var keyCache sync.Map

type Key struct {
	Priv crypto.PrivateKey
	Addr *types.Address
}

func keyFor(label string) *Key {
	if k, ok := keyCache.Load(label); ok {
		return k.(*Key)
	}
	h := sha256.Sum256([]byte("verif-key-" + label))
	priv, err := ecdsa.UnmarshalPrivateKey(h[:], crypto.Secp256k1)
	if err != nil {
		panic(err)
	}
	addr, err := priv.PublicKey().Address()
	if err != nil {
		panic(err)
	}
	k := &Key{Priv: priv, Addr: addr}
	keyCache.Store(label, k)
	return k
}

// World is the genesis configuration shared by all replicas of a run.
type World struct {
	Admins   int    `json:"admins"`    // 1..4
	Normal   int    `json:"normal"`    // how many of them (the last ones) are ordinary weight-1 admins; admin 0 is always a super admin
	GasPrice uint64 `json:"gas_price"` // 0, 1, 50000
	Audit    bool   `json:"audit"`     // executor.enable_audit
	Balance  string `json:"balance"`   // genesis admin balance
	Strategy string `json:"strategy"`  // strategy expression for all modules ("" = shipped a > 0.5 * t)
	ChainID  uint64 `json:"chain_id"`
	GasLimit uint64 `json:"gas_limit,omitempty"` // the operator's gas_limit (0 = shipped 100000000)
}

func (w World) adminKey(i int) *Key { return keyFor(fmt.Sprintf("admin%d", i)) }

func (w World) config(proofType string) *repo.Config {
	cfg, err := repo.DefaultConfig()
	if err != nil {
		panic(err)
	}
	cfg.Ledger.Type = "simple"
	cfg.Executor.Type = "serial"
	cfg.Executor.ProofType = proofType
	cfg.Executor.EnableAudit = w.Audit
	cfg.Genesis.ChainID = w.ChainID
	if w.GasLimit != 0 {
		cfg.GasLimit = w.GasLimit
	}
	cfg.Genesis.BvmGasPrice = w.GasPrice
	if w.Balance != "" {
		cfg.Genesis.Balance = w.Balance
	}
	expr := w.Strategy
	if expr == "" {
		expr = "a > 0.5 * t"
	}
	for i := 0; i < w.Admins; i++ {
		weight := uint64(repo.SuperAdminWeight)
		if i > 0 && i >= w.Admins-w.Normal {
			weight = repo.NormalAdminWeight
		}
		cfg.Genesis.Admins = append(cfg.Genesis.Admins, &repo.Admin{Address: w.adminKey(i).Addr.String(), Weight: weight})
	}
	for _, m := range []string{"appchain_mgr", "proposal_strategy_mgr", "rule_mgr", "node_mgr", "service_mgr", "role_mgr", "dapp_mgr"} {
		cfg.Genesis.Strategy = append(cfg.Genesis.Strategy, &repo.Strategy{Module: m, Typ: "SimpleMajority", Extra: expr})
	}
	return cfg
}

// Policy is the per-replica perturbation ("schedule") of a run.
type Policy struct {
	ProofType string `json:"proof_type"`           // serial | parallel
	Cache     int    `json:"cache"`                // LRU size, 0 = shipped
	RestartAt []int  `json:"restart_at"`           // stop+reopen after these block indexes
	Reader    bool   `json:"reader"`               // slow disk + concurrent API reader: while the block's state commit waits at the stalled store, every state key and account the block changed is read through the read-write ledger (what the JSON-RPC / gRPC account and storage queries do)
	Compete   int    `json:"compete,omitempty"`    // block replacement at the head: chance (per mille) per block that the replica first executes a competing block of the same height (the block without one of its transactions) and then receives the real one, which takes the executor through its rollback of the head and the re-execution (what a node sees when the ordering layer hands it a height again after a restart or a fork)
	Synced    bool   `json:"synced,omitempty"`     // the replica receives every block the way block synchronisation delivers it: as the reference stored it after execution (header, roots and hash filled in) instead of the bare block the ordering layer cuts
	Burst     int    `json:"burst,omitempty"`      // back-to-back delivery: the replica lags and is then handed this many blocks at once, each before the previous one is executed (what a node sees when ordering or block sync runs ahead of execution: the executor's pre-execution stage works on block N+1 while block N is still being executed)
	ApiReader int    `json:"api_reader,omitempty"` // concurrent account-API reader at the yield points of the flush/commit path: chance (per mille) per yield point that a balance query (coreapi GetAccount: Ledger.Copy().GetOrCreateAccount) runs exactly there
}

// apiReader is the state of the concurrent account-API reader of one block (Policy.ApiReader).
type apiReader struct {
	rnd      *sim.Rand
	permil   int
	addrs    []*types.Address
	contract *types.Address // a deployed user contract whose code and records are queried too (nil: none)
	keys     []string
	landed   []string // "<site>#<statement>" of the yield points where the reader ran
}

type replica struct {
	id      int
	world   World
	pol     Policy
	stateKV *sim.SimKV
	chainKV *sim.SimKV
	dir     string
	repo    *repo.Repo
	cfg     *repo.Config
	lg      *ledger.Ledger
	exec    *executor.BlockExecutor
	view    *executor.BlockExecutor
	evCh    chan events.ExecutedEvent
	sub     event.Subscription
	height  uint64
	rt      *router.InterchainRouter
	backlog []*pb.CommitEvent // Policy.Burst: blocks the reference has executed and this replica has not been handed yet
}

func scratchDir() string {
	d := os.Getenv("VERIF_SCRATCH")
	if d == "" {
		d = os.TempDir()
	}
	return d
}

var dirSeq int
var dirMu sync.Mutex

func newReplica(id int, w World, pol Policy) (*replica, error) {
	dirMu.Lock()
	dirSeq++
	d := filepath.Join(scratchDir(), fmt.Sprintf("cs-%d-%d", os.Getpid(), dirSeq))
	dirMu.Unlock()
	if err := os.MkdirAll(d, 0755); err != nil {
		return nil, err
	}
	if pol.ProofType == "" {
		pol.ProofType = "serial"
	}
	types2.InitEIP155Signer(new(big.Int).SetUint64(w.ChainID)) // what cmd/bitxhub does at start-up (process-wide)
	r := &replica{id: id, world: w, pol: pol, stateKV: sim.NewSimKV(), chainKV: sim.NewSimKV(), dir: d}
	r.cfg = w.config(pol.ProofType)
	nodeKey := keyFor("node")
	r.repo = &repo.Repo{Key: &repo.Key{PrivKey: nodeKey.Priv, Address: nodeKey.Addr.String()}, Config: r.cfg,
		NetworkConfig: &repo.NetworkConfig{}}
	return r, r.open()
}

func (r *replica) newCache() *ledger.AccountCache {
	var c *ledger.AccountCache
	var err error
	if r.pol.Cache <= 0 {
		c, err = ledger.NewAccountCache()
	} else {
		c, err = ledger.VerifNewAccountCacheWithSizes(r.pol.Cache, r.pol.Cache, r.pol.Cache)
	}
	if err != nil {
		panic(err)
	}
	return c
}

func (r *replica) open() error {
	bf, err := blockfile.NewBlockFile(r.dir, quietLogger)
	if err != nil {
		return fmt.Errorf("blockfile: %w", err)
	}
	lg, err := ledger.New(r.repo, r.chainKV, r.stateKV, bf, r.newCache(), quietLogger)
	if err != nil {
		bf.Close()
		return fmt.Errorf("ledger.New: %w", err)
	}
	r.lg = lg
	viewSL, err := ledger.NewSimpleLedger(r.repo, r.stateKV, nil, quietLogger)
	if err != nil {
		return err
	}
	viewLdg := &ledger.Ledger{ChainLedger: lg.ChainLedger, StateLedger: viewSL}
	view, err := executor.New(viewLdg, quietLogger, &appchain.Client{}, r.cfg, big.NewInt(0))
	if err != nil {
		return fmt.Errorf("view executor: %w", err)
	}
	r.view = view
	if lg.GetChainMeta().Height == 0 {
		if err := genesis.Initialize(&r.cfg.Genesis, nil, 0, lg, view); err != nil {
			return fmt.Errorf("genesis: %w", err)
		}
	}
	ex, err := executor.New(lg, quietLogger, &appchain.Client{}, r.cfg, new(big.Int).SetUint64(r.cfg.Genesis.BvmGasPrice))
	if err != nil {
		return fmt.Errorf("executor: %w", err)
	}
	r.exec = ex
	if err := ex.Start(); err != nil {
		return err
	}
	r.evCh = make(chan events.ExecutedEvent, 16)
	r.sub = ex.SubscribeBlockEvent(r.evCh)
	r.height = lg.GetChainMeta().Height
	r.rt = nil
	return nil
}

// stop shuts the executor down the way the node does (Stop closes the ledger asynchronously).
func (r *replica) stop() {
	if r.exec == nil {
		return
	}
	closes := r.stateKV.Closes
	r.sub.Unsubscribe()
	_ = r.exec.Stop()
	for i := 0; i < 2000 && r.stateKV.Closes == closes; i++ {
		time.Sleep(time.Millisecond) // wall-clock wait for the executor's own goroutine; never influences a verdict
	}
	r.exec = nil
}

func (r *replica) destroy() {
	r.stop()
	os.RemoveAll(r.dir)
}

func (r *replica) restart() error {
	r.stop()
	return r.open()
}

// cloneBlock gives every replica its own copy: the executor mutates the block in place.
func cloneCommit(ev *pb.CommitEvent) *pb.CommitEvent {
	b, err := ev.Block.Marshal()
	if err != nil {
		panic(err)
	}
	nb := &pb.Block{}
	if err := nb.Unmarshal(b); err != nil {
		panic(err)
	}
	// Unmarshal restores BxhTransaction values; keep hashes as set by the sender
	for i, tx := range nb.Transactions.Transactions {
		if bt, ok := tx.(*pb.BxhTransaction); ok {
			bt.TransactionHash = ev.Block.Transactions.Transactions[i].GetHash()
		}
	}
	return &pb.CommitEvent{Block: nb, LocalList: append([]bool(nil), ev.LocalList...)}
}

type blockResult struct {
	Height   uint64
	Hash     string
	Header   *pb.BlockHeader
	Receipts []*pb.Receipt
	Meta     *pb.InterchainMeta
	TxHashes []*types.Hash
	Block    *pb.Block // the block as the executor left it (header filled in, hash set)
}

// syncedCommit: the block as a node that caught up through block synchronisation receives it, i.e. as a peer stored
// it after executing it (header, hash and signature filled in), not as the ordering layer cuts it.
func syncedCommit(executed *pb.Block, localList []bool) *pb.CommitEvent {
	return cloneCommit(&pb.CommitEvent{Block: executed, LocalList: localList})
}

var errWedged = fmt.Errorf("no ExecutedEvent within the watchdog window")

// execute feeds one block and waits for the executed event.
func (r *replica) execute(ev *pb.CommitEvent, watchdog time.Duration) (*blockResult, error) {
	r.exec.ExecuteBlock(cloneCommit(ev))
	select {
	case e := <-r.evCh:
		res := &blockResult{Height: e.Block.BlockHeader.Number, Hash: e.Block.BlockHash.String(), Header: e.Block.BlockHeader, Meta: e.InterchainMeta, TxHashes: e.TxHashList, Block: e.Block}
		for _, h := range e.TxHashList {
			rc, err := r.lg.GetReceipt(h)
			if err != nil {
				return res, fmt.Errorf("receipt of %s missing after execution: %w", h.String()[:10], err)
			}
			res.Receipts = append(res.Receipts, rc)
		}
		r.height = res.Height
		return res, nil
	case <-time.After(watchdog):
		return nil, errWedged
	}
}

// executeBurst hands the replica all given blocks back to back (none waits for the previous one to be executed)
// and then collects the executed events in order.
func (r *replica) executeBurst(evs []*pb.CommitEvent, watchdog time.Duration) ([]*blockResult, error) {
	for _, ev := range evs {
		r.exec.ExecuteBlock(cloneCommit(ev))
	}
	var got []events.ExecutedEvent
	for range evs {
		select {
		case e := <-r.evCh:
			got = append(got, e)
		case <-time.After(watchdog):
			return nil, errWedged
		}
	}
	var out []*blockResult
	for _, e := range got {
		res := &blockResult{Height: e.Block.BlockHeader.Number, Hash: e.Block.BlockHash.String(), Header: e.Block.BlockHeader, Meta: e.InterchainMeta, TxHashes: e.TxHashList, Block: e.Block}
		for _, h := range e.TxHashList {
			rc, err := r.lg.GetReceipt(h)
			if err != nil {
				return out, fmt.Errorf("receipt of %s missing after execution: %w", h.String()[:10], err)
			}
			res.Receipts = append(res.Receipts, rc)
		}
		r.height = res.Height
		out = append(out, res)
	}
	return out, nil
}

// competingBlock: the block of ev without its transaction number drop.
func competingBlock(ev *pb.CommitEvent, drop int) *pb.CommitEvent {
	c := cloneCommit(ev)
	txs := c.Block.Transactions.Transactions
	if drop < 0 || drop >= len(txs) {
		return c
	}
	c.Block.Transactions.Transactions = append(append([]pb.Transaction(nil), txs[:drop]...), txs[drop+1:]...)
	if drop < len(c.LocalList) {
		c.LocalList = append(append([]bool(nil), c.LocalList[:drop]...), c.LocalList[drop+1:]...)
	}
	return c
}

// executeWithReader executes one block with the state store stalled; once the block's state commit is waiting
// there (flushed, not committed), touch is called (the concurrent reader), then the disk is released.
func (r *replica) executeWithReader(ev *pb.CommitEvent, watchdog time.Duration, touch func()) (*blockResult, error) {
	r.stateKV.Stall()
	r.exec.ExecuteBlock(cloneCommit(ev))
	deadline := time.Now().Add(watchdog)
	for r.stateKV.StalledWriters() < 1 {
		if time.Now().After(deadline) {
			r.stateKV.Release()
			return nil, errWedged
		}
		time.Sleep(50 * time.Microsecond) // wall-clock poll of the executor's own goroutines; never influences a verdict
	}
	touch()
	r.stateKV.Release()
	select {
	case e := <-r.evCh:
		res := &blockResult{Height: e.Block.BlockHeader.Number, Hash: e.Block.BlockHash.String(), Header: e.Block.BlockHeader, Meta: e.InterchainMeta, TxHashes: e.TxHashList, Block: e.Block}
		for _, h := range e.TxHashList {
			rc, err := r.lg.GetReceipt(h)
			if err != nil {
				return res, fmt.Errorf("receipt of %s missing after execution: %w", h.String()[:10], err)
			}
			res.Receipts = append(res.Receipts, rc)
		}
		r.height = res.Height
		return res, nil
	case <-time.After(watchdog):
		return nil, errWedged
	}
}

// executeWithApiReader executes one block while a concurrent client of the account API queries balances: at every
// yield point of processExecuteEvent / FlushDirtyData / Commit (between two statements, no lock held) the seeded
// source decides whether the queries run exactly there. The queries are what coreapi's GetAccount does.
func (r *replica) executeWithApiReader(ev *pb.CommitEvent, watchdog time.Duration, ar *apiReader) (*blockResult, error) {
	hook := func(site string, idx int, recv interface{}) {
		if recv != interface{}(r.lg.StateLedger) && recv != interface{}(r.exec) {
			return // another replica's executor
		}
		if !ar.rnd.Chance(float64(ar.permil) / 1000) {
			return
		}
		for _, a := range ar.addrs {
			r.lg.Copy().GetOrCreateAccount(a).GetBalance() // coreapi GetAccount (gRPC account balance)
			r.lg.GetNonce(a)                               // eth_getTransactionCount
		}
		if ar.contract != nil {
			// which of the contract's queries this client sends: only its balance and nonce (eth_getBalance of a contract
			// address: the account object is loaded and its code is not asked for), only code and records, or all of them
			mode := ar.rnd.Intn(3)
			if mode != 1 {
				r.lg.Copy().GetOrCreateAccount(ar.contract).GetBalance()
				r.lg.GetNonce(ar.contract)
			}
			if mode != 0 {
				r.lg.GetCode(ar.contract) // eth_getCode
				for _, k := range ar.keys {
					r.lg.GetState(ar.contract, []byte(k)) // eth_getStorageAt
				}
			}
		}
		ar.landed = append(ar.landed, fmt.Sprintf("%s#%d", site, idx))
	}
	ledger.VerifYieldHook, executor.VerifYieldHook = hook, hook
	defer func() { ledger.VerifYieldHook, executor.VerifYieldHook = nil, nil }()
	return r.execute(ev, watchdog)
}

// stateDump: ordered content of the state store without journal bookkeeping.
func (r *replica) stateDump() [][2]string {
	return r.stateKV.Dump(func(k string) bool { return sim.HasPrefixBytes(k, "journal-") })
}

func dumpDigest(d [][2]string) string {
	h := sha256.New()
	for _, kv := range d {
		h.Write([]byte(kv[0]))
		h.Write([]byte{0})
		h.Write([]byte(kv[1]))
		h.Write([]byte{1})
	}
	return hex.EncodeToString(h.Sum(nil))[:16]
}

// view executes read-only BVM calls on the view executor.
func (r *replica) viewCall(txs ...pb.Transaction) []*pb.Receipt {
	return r.view.ApplyReadonlyTransactions(txs)
}

// metaString renders the delivery metadata canonically (maps sorted, slices in order).
func metaString(m *pb.InterchainMeta) string {
	if m == nil {
		return "<nil>"
	}
	s := "counter{"
	var ks []string
	for k := range m.Counter {
		ks = append(ks, k)
	}
	sort.Strings(ks)
	for _, k := range ks {
		s += k + ":["
		for _, v := range m.Counter[k].Slice {
			s += fmt.Sprintf("%d/%v/%v ", v.Index, v.Valid, v.IsBatch)
		}
		s += "]"
	}
	s += "} timeout{"
	ks = nil
	for k := range m.TimeoutCounter {
		ks = append(ks, k)
	}
	sort.Strings(ks)
	for _, k := range ks {
		s += k + ":" + fmt.Sprint(m.TimeoutCounter[k].Slice)
	}
	s += "} multi{"
	ks = nil
	for k := range m.MultiTxCounter {
		ks = append(ks, k)
	}
	sort.Strings(ks)
	for _, k := range ks {
		s += k + ":" + fmt.Sprint(m.MultiTxCounter[k].Slice)
	}
	s += "} l2roots["
	for _, h := range m.TimeoutL2Roots {
		s += h.String()[:10] + " "
	}
	return s + "]"
}
