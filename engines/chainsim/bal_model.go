package chainsim

import (
	"bytes"
	"encoding/json"
	"fmt"
	"math/big"
	"strings"
	"time"

	"github.com/meshplus/bitxhub-model/pb"
	"github.com/meshplus/bitxhub/verif/sim"
)

// balModel: C14 — value conservation, read from the raw state store after every block.

type balModel struct {
	s    *scn
	prev map[string]*big.Int // address -> balance after the previous block
}

func newBalModel(s *scn) *balModel { return &balModel{s: s, prev: map[string]*big.Int{}} }

func (b *balModel) get(addr string) *big.Int {
	if v, ok := b.prev[addr]; ok {
		return new(big.Int).Set(v)
	}
	return new(big.Int)
}

type innerAcct struct {
	Nonce   uint64   `json:"nonce"`
	Balance *big.Int `json:"balance"`
}

func balancesOf(dump [][2]string) map[string]*big.Int {
	m := map[string]*big.Int{}
	for _, kv := range dump {
		if strings.HasPrefix(kv[0], "account-") {
			a := innerAcct{}
			if json.Unmarshal([]byte(kv[1]), &a) == nil && a.Balance != nil {
				m[kv[0][len("account-"):]] = a.Balance
			}
		}
	}
	return m
}

func sum(m map[string]*big.Int) *big.Int {
	t := new(big.Int)
	for _, v := range m {
		t.Add(t, v)
	}
	return t
}

func (b *balModel) afterBlock(h uint64, txs []*pb.BxhTransaction, metas []*txMeta, ref *blockResult) {
	s := b.s
	cur := balancesOf(s.reps[0].stateDump())
	defer func() { b.prev = cur }()
	if len(b.prev) == 0 {
		return
	}
	for a, v := range cur {
		if v.Sign() < 0 {
			s.vio("C14", "negative-balance", "", "after block %d account %s has balance %s", h, a, v)
		}
	}
	before, after := sum(b.prev), sum(cur)
	grant := b.adminGrants(h, txs, metas, ref)
	allowed := new(big.Int).Add(before, grant)
	if after.Cmp(allowed) > 0 {
		s.vio("C14", "value-created", "", "block %d: sum of all balances grew from %s to %s (documented admin grants in this block: %s)", h, before, after, grant)
	}
	// ... nor vanishes: "fees leave the sender and reach the admins with at most (number of admins - 1) units of rounding
	// loss per transaction" - over a block of BitXHub-native transactions the sum drops by no more than that
	n := int64(s.cfg.World.Admins)
	native := true
	for _, mt := range metas {
		if mt.kind == "eth" {
			native = false // (an Ethereum-format transaction pays its gas by its own rules)
		}
	}
	if native && s.prop == "C14" {
		maxLoss := big.NewInt((n - 1) * int64(len(txs)))
		if lost := new(big.Int).Sub(before, after); lost.Cmp(maxLoss) > 0 {
			s.vio("C14", "value-destroyed", "", "block %d (%d transactions, %d admins): the sum of all balances dropped from %s to %s, by %s; fee rounding allows at most %s", h, len(txs), n, before, after, lost, maxLoss)
		}
	}
	// per transaction accounting is only possible when a block holds a single transaction
	price := new(big.Int).SetUint64(s.cfg.World.GasPrice)
	if len(txs) == 1 && len(ref.Receipts) == 1 && metas[0].kind == "transfer" {
		tx, rc := txs[0], ref.Receipts[0]
		from, to := tx.From.String(), tx.To.String()
		td := &pb.TransactionData{}
		_ = td.Unmarshal(tx.Payload)
		amt, okAmt := new(big.Int).SetString(td.Amount, 10)
		if !okAmt {
			amt = new(big.Int)
		}
		fee := new(big.Int).Mul(new(big.Int).SetUint64(rc.GasUsed), price)
		isAdmin := func(a string) bool {
			for i := 0; i < s.cfg.World.Admins; i++ {
				if s.cfg.World.adminKey(i).Addr.String() == a {
					return true
				}
			}
			return false
		}
		if !isAdmin(from) && !isAdmin(to) && from != to {
			dFrom := new(big.Int).Sub(b.get(from), valOr0(cur[from]))
			dTo := new(big.Int).Sub(valOr0(cur[to]), b.get(to))
			if dTo.Sign() < 0 {
				s.vio("C14", "transfer-accounting", "receiver-debited", "block %d: transfer with stated amount %q took %s from the receiver", h, td.Amount, new(big.Int).Neg(dTo))
			} else if rc.Status == pb.Receipt_SUCCESS {
				want := new(big.Int).Add(amt, fee)
				if dFrom.Cmp(want) != 0 || dTo.Cmp(amt) != 0 {
					s.vio("C14", "transfer-accounting", "success", "block %d: transfer of %s (fee %s): sender lost %s, receiver gained %s", h, amt, fee, dFrom, dTo)
				}
				s.res.Count("probe_single_transfer_success")
			} else {
				// failed: nothing moves but the fee (or the sender's whole balance)
				if dTo.Sign() != 0 {
					s.vio("C14", "transfer-accounting", "failed-receiver", "block %d: failed transfer (%q) changed the receiver's balance by %s", h, rc.Ret, dTo)
				}
				if dFrom.Cmp(fee) != 0 && valOr0(cur[from]).Sign() != 0 {
					s.vio("C14", "transfer-accounting", "failed-sender", "block %d: failed transfer (%q) cost the sender %s, fee is %s", h, rc.Ret, dFrom, fee)
				}
				s.res.Count("probe_single_transfer_failed")
			}
			// fee split: admins together receive the fee minus at most n-1 units
			got := new(big.Int)
			for i := 0; i < s.cfg.World.Admins; i++ {
				a := s.cfg.World.adminKey(i).Addr.String()
				got.Add(got, new(big.Int).Sub(valOr0(cur[a]), b.get(a)))
			}
			paid := dFrom
			if rc.Status == pb.Receipt_SUCCESS {
				paid = new(big.Int).Sub(dFrom, amt)
			}
			loss := new(big.Int).Sub(paid, got)
			if loss.Sign() < 0 || loss.Cmp(big.NewInt(n-1)) > 0 {
				s.vio("C14", "fee-split", "", "block %d: sender paid fee %s, admins received %s (rounding loss must be within 0..%d)", h, paid, got, n-1)
			}
		}
	}
}

func valOr0(v *big.Int) *big.Int {
	if v == nil {
		return new(big.Int)
	}
	return v
}

// adminGrants: the documented grant to a newly approved governance/audit admin (observed from
// role registrations concluding in this block). Not generated yet by this engine: zero.
func (b *balModel) adminGrants(h uint64, txs []*pb.BxhTransaction, metas []*txMeta, ref *blockResult) *big.Int {
	return b.s.roleGrantsInBlock(h)
}

// ---------------------------------------------------------------------------------------------
// C07 twin check: a failed transaction leaves no effect beyond nonce and fee.

func (s *scn) twinCheck(h uint64, ev *pb.CommitEvent, txs []*pb.BxhTransaction, metas []*txMeta, ref *blockResult) {
	t := s.twin
	if s.prop == "C10" && !s.inSetup {
		s.twinC10(h, ev, txs, metas, ref)
		return
	}
	// pick one failed transaction of the block (rotating) and neutralise it on the twin
	pick := -1
	var failed []int
	for i, rc := range ref.Receipts {
		if rc.Status == pb.Receipt_FAILED && i < len(txs) {
			failed = append(failed, i)
		}
	}
	if len(failed) > 0 && !s.inSetup {
		pick = failed[int(h)%len(failed)]
	}
	if (s.prop == "C09" || s.prop == "C12") && !s.inSetup && len(txs) > 0 {
		// every block goes through the executor's rollback + re-execution on the twin
		pick = int(h) % len(txs)
	}
	if s.prop == "C17" && !s.inSetup {
		// direct calls are checked whether they failed or not
		var calls []int
		for i, m := range metas {
			if m.kind == "call" && i < len(ref.Receipts) {
				calls = append(calls, i)
			}
		}
		if len(calls) > 0 {
			pick = calls[int(h)%len(calls)]
		}
	}
	if pick >= 0 {
		f := txs[pick]
		nb := &pb.Block{BlockHeader: &pb.BlockHeader{Version: ev.Block.BlockHeader.Version, Number: h, Timestamp: ev.Block.BlockHeader.Timestamp}, Transactions: &pb.Transactions{}}
		for i, tx := range txs {
			if i == pick && metas[i].eth != nil {
				// the neutral counterpart of an Ethereum-format transaction: same sender and nonce, no gas, so that the
				// node turns it down before it runs (no fee is taken from either)
				n, err := ethTx(s.cfg.World.ChainID, metas[i].ethLabel, f.Nonce, nil, new(big.Int), 0, big.NewInt(1), nil)
				if err != nil {
					s.res.Aborted = "twin: " + err.Error()
					return
				}
				nb.Transactions.Transactions = append(nb.Transactions.Transactions, n)
			} else if i == pick {
				n := &pb.BxhTransaction{From: f.From, To: f.To, Timestamp: f.Timestamp, Nonce: f.Nonce}
				k := metas[i].sender
				if k != nil {
					_ = n.Sign(k.Priv)
				}
				n.TransactionHash = n.Hash()
				nb.Transactions.Transactions = append(nb.Transactions.Transactions, n)
			} else {
				nb.Transactions.Transactions = append(nb.Transactions.Transactions, blockTx(tx, metas[i]))
			}
		}
		ll := append([]bool(nil), ev.LocalList...)
		if pick < len(ll) {
			ll[pick] = true // the neutral transaction must fail for its empty payload only
		}
		neutralEv := &pb.CommitEvent{Block: nb, LocalList: ll}
		s.curNeutral = neutralEv
		tr, err := t.execute(neutralEv, 12*time.Second)
		if err != nil {
			s.res.Aborted = "twin: " + err.Error()
			return
		}
		s.res.Count("twin_checks")
		s.res.Count("twin_" + metas[pick].kind)
		// state equality modulo the balances of the sender and the admins
		skip := map[string]bool{"account-" + f.From.String(): true}
		for i := 0; i < s.cfg.World.Admins; i++ {
			skip["account-"+s.cfg.World.adminKey(i).Addr.String()] = true
		}
		da, db := s.reps[0].stateDump(), t.stateDump()
		var diff []string
		for _, k := range sim.DiffDumps(da, db) {
			if skip[k] {
				continue
			}
			if a, b := dumpValue(da, k), dumpValue(db, k); ((a == "" && b == "<absent>") || (a == "<absent>" && b == "")) && !strings.HasPrefix(k, "account-") && !strings.HasPrefix(k, "code-") {
				// not an effect of the transaction under test: whether a storage key that holds an empty value exists in the
				// database depends on the node's history (known finding C01/.../storage-key-absent-vs-empty: after a head-block
				// replacement the rollback writes "" where a node that executed the block once stores nothing)
				s.res.Count("probe_twin_diff_absent_vs_empty_ignored")
				continue
			}
			diff = append(diff, k)
		}
		rc := ref.Receipts[pick]
		if rc.Status == pb.Receipt_SUCCESS {
			// only reachable for C17's direct calls: judge what the successful call changed, then resynchronise
			s.callEffectCheck(h, pick, metas[pick], rc, diff)
			diff = nil
			goto resync
		}
		if len(diff) > 0 {
			vals := ""
			if len(diff) <= 2 {
				for _, k := range diff {
					vals += fmt.Sprintf(" [%s: %q vs %q]", trimKeys([]string{k})[0], dumpValue(da, k), dumpValue(db, k))
				}
			}
			discr := metas[pick].kind + "/" + failClass(string(rc.Ret))
			onlyEmpty := true
			for _, k := range diff {
				if !strings.HasPrefix(k, "account-") || dumpValue(db, k) != "<absent>" || dumpValue(da, k) != `{"nonce":0,"balance":0,"code_hash":null}` {
					onlyEmpty = false
				}
			}
			if onlyEmpty {
				// known family (root cause of C10/…/account-touched-unchanged): an account that was only touched is
				// materialised as an empty record at flush, here by a transaction that failed
				discr = "empty-account-record-materialised"
			}
			s.vio("C07", "failed-tx-effect", discr,
				"block %d tx %d (%s %s) FAILED with %q, yet compared with the same block where it is replaced by an empty transaction of the same sender and nonce the state differs in keys %q%s",
				h, pick, metas[pick].kind, metas[pick].note, rc.Ret, trimKeys(diff), vals)
			s.vio("C02", "rejected-ibtp-effect", metas[pick].kind, "block %d tx %d: rejected %s %s (%q) changed state keys %q", h, pick, metas[pick].kind, metas[pick].note, rc.Ret, trimKeys(diff))
			s.vio("C03", "rejected-ibtp-effect", metas[pick].kind, "block %d tx %d: rejected %s %s (%q) changed state keys %q", h, pick, metas[pick].kind, metas[pick].note, rc.Ret, trimKeys(diff))
			s.vio("C17", "refused-call-effect", metas[pick].note, "block %d tx %d: refused call %s (%q) changed state keys %q", h, pick, metas[pick].note, rc.Ret, trimKeys(diff))
		}
		// nonce and fee: sender balance differs exactly by the fee difference, same nonce
		ba, bb := balancesOf(da), balancesOf(db)
		price := new(big.Int).SetUint64(s.cfg.World.GasPrice)
		feeA := new(big.Int).Mul(new(big.Int).SetUint64(rc.GasUsed), price)
		feeB := new(big.Int).Mul(new(big.Int).SetUint64(tr.Receipts[pick].GasUsed), price)
		isAdmin := false
		for i := 0; i < s.cfg.World.Admins; i++ {
			if s.cfg.World.adminKey(i).Addr.String() == f.From.String() {
				isAdmin = true
			}
		}
		if !isAdmin && metas[pick].kind != "eth" {
			// (an Ethereum-format transaction pays its own gas price, or nothing when it is turned down before it runs)
			d := new(big.Int).Sub(valOr0(bb[f.From.String()]), valOr0(ba[f.From.String()])) // twin has more if A paid more
			want := new(big.Int).Sub(feeA, feeB)
			if d.Cmp(want) != 0 && valOr0(ba[f.From.String()]).Sign() != 0 {
				s.vio("C07", "failed-tx-charge", metas[pick].kind, "block %d tx %d FAILED (%q): sender balance is %s lower than with an empty transaction, the fee difference is %s", h, pick, rc.Ret, d, want)
			}
		}
		// later receipts equal
		for j := pick + 1; j < len(ref.Receipts) && j < len(tr.Receipts); j++ {
			if metas[j].kind == "eth" && ref.Receipts[j].Status == tr.Receipts[j].Status {
				continue // EVM error texts quote balances, which legitimately differ by the fee of the replaced transaction
			}
			if ref.Receipts[j].Status != tr.Receipts[j].Status || string(ref.Receipts[j].Ret) != string(tr.Receipts[j].Ret) {
				s.vio("C07", "failed-tx-influences-later-tx", metas[pick].kind, "block %d: tx %d FAILED (%q) but the receipt of tx %d differs from the run where it is replaced by an empty transaction: %q vs %q", h, pick, rc.Ret, j, ref.Receipts[j].Ret, tr.Receipts[j].Ret)
				break
			}
		}
		if counterHasAnywhere(ref.Meta, pick) {
			s.vio("C07", "failed-tx-delivered", metas[pick].kind, "block %d tx %d FAILED (%q) but is announced in the block's delivery set %s", h, pick, rc.Ret, metaString(ref.Meta))
		}
	}
resync:
	// bring the twin to the real block (after a neutralised block this goes through the executor's
	// height-mismatch path: roll back one block, execute the real one)
	tr, err := t.execute(ev, 12*time.Second)
	if err != nil {
		s.res.Aborted = "twin resync: " + err.Error()
		return
	}
	if pick >= 0 {
		s.res.Count("probe_executor_rollback_reexecute")
	}
	if tr.Hash != ref.Hash {
		d := sim.DiffDumps(s.reps[0].stateDump(), t.stateDump())
		oracle, prop := "twin-diverged", "C01"
		if pick >= 0 {
			oracle, prop = "reexecute-after-rollback-differs", "C12"
		}
		rdiff := ""
		for j := range ref.Receipts {
			if j < len(tr.Receipts) && !bytes.Equal(receiptBytes(ref.Receipts[j]), receiptBytes(tr.Receipts[j])) {
				rdiff = fmt.Sprintf("; receipt %d (%s %s): reference %v %q, twin %v %q", j, metas[j].kind, metas[j].note, ref.Receipts[j].Status, ref.Receipts[j].Ret, tr.Receipts[j].Status, tr.Receipts[j].Ret)
				break
			}
		}
		s.vio(prop, oracle, "", "block %d: the twin replica computed block hash %s, the reference %s; differing state keys %q%s", h, tr.Hash[:14], ref.Hash[:14], trimKeys(d), rdiff)
		if s.prop != "C09" {
			s.fatal = true
		}
	}
	if pick >= 0 {
		s.checkStoredChain(t, h, "twin after rollback and re-execution")
	}
	// a block below the head is replaced: the twin, at height h, is handed the variant of block h-1 (the executor
	// rolls back two blocks), then the real blocks h-1 and h again
	if (s.prop == "C09" || s.prop == "C12") && !s.inSetup && !s.fatal && h%3 == 0 && s.prevNeutral != nil && s.prevEv != nil && s.prevNeutral.Block.BlockHeader.Number == h-1 {
		for j, e := range []*pb.CommitEvent{s.prevNeutral, s.prevEv, ev} {
			tr, err = t.execute(e, 12*time.Second)
			if err != nil {
				s.res.Aborted = "twin deep resync: " + err.Error()
				return
			}
			if j == 0 {
				s.checkStoredChain(t, h-1, "twin after the block below its head was replaced (two-block rollback)")
			}
		}
		s.res.Count("probe_executor_rollback_of_two_blocks")
		if tr.Hash != ref.Hash {
			s.vio("C12", "reexecute-after-two-block-rollback-differs", "", "block %d: after the block below the head had been replaced and both blocks re-executed the twin computed block hash %s, the reference %s", h, tr.Hash[:14], ref.Hash[:14])
			s.vio("C09", "reexecute-after-two-block-rollback-differs", "", "block %d: after the block below the head had been replaced and both blocks re-executed the twin computed block hash %s, the reference %s", h, tr.Hash[:14], ref.Hash[:14])
		}
		s.checkStoredChain(t, h, "twin after a two-block rollback and re-execution")
	}
	s.prevNeutral, s.prevEv, s.curNeutral = s.curNeutral, ev, nil
}

var _ = fmt.Sprint

func dumpValue(d [][2]string, k string) string {
	for _, kv := range d {
		if kv[0] == k {
			if len(kv[1]) > 160 {
				return kv[1][:160] + "…"
			}
			return kv[1]
		}
	}
	return "<absent>"
}
