package chainsim

import (
	"encoding/json"
	"fmt"
	"math/big"

	"github.com/meshplus/bitxhub-core/governance"
	"github.com/meshplus/bitxhub-model/constant"
	"github.com/meshplus/bitxhub-model/pb"
)

// ---------------------------------------------------------------------------------------------
// C14's grant clause: "except by the documented grant to a newly approved governance or audit admin".
// Role registrations are generated as macro steps (operation + approving votes of every administrator);
// the roles are read back after every block and an administrator seen available for the first time
// accounts for one grant of the genesis balance, once.

// govApprove submits one governance operation in a block of its own and has every administrator approve the
// proposal it returns (if any). ok = the operation succeeded.
func (s *scn) govApprove(k *Key, to constant.BoltContractAddress, note, target, method string, args ...*pb.Arg) bool {
	s.flush()
	s.add(s.b.bvm(k, to, method, args...), &txMeta{kind: "gov", sender: k, note: note, target: target})
	rs := s.flush()
	if rs == nil || len(rs.Receipts) == 0 {
		return false
	}
	rc := rs.Receipts[len(rs.Receipts)-1]
	if rc.Status != pb.Receipt_SUCCESS {
		s.logf("  %s refused: %q", note, rc.Ret)
		return false
	}
	g := &governance.GovernanceResult{}
	if json.Unmarshal(rc.Ret, g) != nil || g.ProposalID == "" {
		return true
	}
	w := s.cfg.World
	for i := 0; i < w.Admins; i++ {
		a := w.adminKey(i)
		s.add(s.b.bvm(a, constant.GovernanceContractAddr, "Vote", pb.String(g.ProposalID), pb.String("approve"), pb.String("r")), &txMeta{kind: "vote", sender: a, note: "approve", target: g.ProposalID})
	}
	return s.flush() != nil
}

// applyAdminReg: N even = a new governance administrator; N odd = the audit-administrator cycle (two audit nodes, an
// audit administrator bound to the first, the first node logged out, the administrator bound to the second).
func (s *scn) applyAdminReg(st CStep) {
	s.adminSeq++
	u := fmt.Sprintf("%d-%d", st.A, s.adminSeq)
	a0 := s.cfg.World.adminKey(0)
	if st.N%2 == 0 {
		na := keyFor("newadmin-" + u)
		if w := s.cfg.World; st.N%4 == 2 && w.GasPrice > 0 && len(s.users) >= 2 {
			// the candidate already holds a balance, and the administrator whose approval concludes the proposal cannot pay
			// the fee of that vote: the vote runs (the role is registered, the grant is paid), fails at the fee stage and
			// is reverted — the grant must go with it; a later administrator's vote then concludes the proposal for good
			need := w.Admins/2 + 1
			if w.Strategy != "" {
				need = w.Admins
				for a := 1; a <= w.Admins; a++ {
					if ok, err := evalStrategy(w.Strategy, uint64(a), 0, uint64(w.Admins)); err == nil && ok {
						need = a
						break
					}
				}
			}
			if need >= 2 {
				poor := w.adminKey(need - 1)
				s.flush()
				s.add(s.b.transfer(s.users[0], na.Addr, "1000"), &txMeta{kind: "transfer", sender: s.users[0], note: "fund-candidate"})
				s.add(s.b.transfer(poor, s.users[1].Addr, s.amount(poor, "nearly")), &txMeta{kind: "transfer", sender: poor, note: "nearly"})
				s.flush()
				s.res.Count("role_macro_deciding_vote_by_an_administrator_without_the_fee")
			}
		}
		s.govApprove(a0, constant.RoleContractAddr, "register-governance-admin", na.Addr.String(), "RegisterRole", pb.String(na.Addr.String()), pb.String("governanceAdmin"), pb.String(""), pb.String("reason"))
		s.res.Count("role_macro_governance_admin")
		return
	}
	n1, n2, aa := keyFor("auditnode1-"+u), keyFor("auditnode2-"+u), keyFor("auditadmin-"+u)
	perm := s.chains[0].id
	if !s.govApprove(a0, constant.NodeManagerContractAddr, "register-audit-node", n1.Addr.String(), "RegisterNode", pb.String(n1.Addr.String()), pb.String("nvpNode"), pb.String(""), pb.Uint64(0), pb.String("audit1-"+u), pb.String(perm), pb.String("reason")) {
		return
	}
	if !s.govApprove(a0, constant.NodeManagerContractAddr, "register-audit-node", n2.Addr.String(), "RegisterNode", pb.String(n2.Addr.String()), pb.String("nvpNode"), pb.String(""), pb.Uint64(0), pb.String("audit2-"+u), pb.String(perm), pb.String("reason")) {
		return
	}
	if !s.govApprove(a0, constant.RoleContractAddr, "register-audit-admin", aa.Addr.String(), "RegisterRole", pb.String(aa.Addr.String()), pb.String("auditAdmin"), pb.String(n1.Addr.String()), pb.String("reason")) {
		return
	}
	s.res.Count("role_macro_audit_admin_registered")
	if st.N%4 == 3 {
		return
	}
	if !s.govApprove(a0, constant.NodeManagerContractAddr, "logout-audit-node", n1.Addr.String(), "LogoutNode", pb.String(n1.Addr.String()), pb.String("reason")) {
		return
	}
	if s.govApprove(a0, constant.RoleContractAddr, "bind-audit-admin", aa.Addr.String(), "BindRole", pb.String(aa.Addr.String()), pb.String(n2.Addr.String()), pb.String("reason")) {
		s.res.Count("role_macro_audit_admin_rebound")
	}
}

type roleView struct {
	ID       string `json:"id"`
	RoleType string `json:"role_type"`
	Status   string `json:"status"`
}

// roleGrantsInBlock: grants due in this block = administrators (governance or audit) seen available for the first time.
func (s *scn) roleGrantsInBlock(h uint64) *big.Int {
	if !s.cfg.RoleOps || s.inSetup {
		return new(big.Int)
	}
	rcs := s.reps[0].viewCall(viewTx(s.users[0], constant.RoleContractAddr, "GetAllRoles"))
	if len(rcs) != 1 || rcs[0] == nil || rcs[0].Status != pb.Receipt_SUCCESS {
		return new(big.Int)
	}
	var roles []roleView
	if json.Unmarshal(rcs[0].Ret, &roles) != nil {
		return new(big.Int)
	}
	if s.grantSeen == nil {
		s.grantSeen = map[string]bool{}
		for i := 0; i < s.cfg.World.Admins; i++ {
			s.grantSeen[s.cfg.World.adminKey(i).Addr.String()] = true // genesis administrators are funded by genesis
		}
	}
	n := int64(0)
	for _, r := range roles {
		if (r.RoleType == "governanceAdmin" || r.RoleType == "auditAdmin") && r.Status == "available" && !s.grantSeen[r.ID] {
			s.grantSeen[r.ID] = true
			n++
			s.res.Count("probe_admin_grant_due")
		}
	}
	gb, _ := new(big.Int).SetString(s.reps[0].cfg.Genesis.Balance, 10)
	if gb == nil {
		gb = new(big.Int)
	}
	return new(big.Int).Mul(gb, big.NewInt(n))
}
