package chainsim

import (
	"crypto/sha256"
	"fmt"

	"github.com/meshplus/bitxhub-kit/types"
	"github.com/meshplus/bitxhub-model/constant"
	"github.com/meshplus/bitxhub-model/pb"
)

// txBuilder signs transactions; timestamps come from the plan (never from a clock).
type txBuilder struct {
	nonces map[string]uint64
	ts     int64
}

func newTxBuilder() *txBuilder {
	return &txBuilder{nonces: map[string]uint64{}, ts: 1_600_000_000_000_000_000}
}

func (b *txBuilder) nextNonce(k *Key) uint64 {
	n := b.nonces[k.Addr.String()]
	b.nonces[k.Addr.String()] = n + 1
	return n
}

func (b *txBuilder) finish(k *Key, tx *pb.BxhTransaction, sign bool) *pb.BxhTransaction {
	b.ts += 1000
	tx.From = k.Addr
	tx.Timestamp = b.ts
	tx.Nonce = b.nextNonce(k)
	if sign {
		if err := tx.Sign(k.Priv); err != nil {
			panic(err)
		}
	}
	tx.TransactionHash = tx.Hash()
	return tx
}

func (b *txBuilder) transfer(k *Key, to *types.Address, amount string) *pb.BxhTransaction {
	td := &pb.TransactionData{Type: pb.TransactionData_NORMAL, Amount: amount}
	payload, _ := td.Marshal()
	return b.finish(k, &pb.BxhTransaction{To: to, Payload: payload}, true)
}

func invokePayload(vm pb.TransactionData_VMType, method string, args ...*pb.Arg) []byte {
	pl := &pb.InvokePayload{Method: method, Args: args}
	data, _ := pl.Marshal()
	td := &pb.TransactionData{Type: pb.TransactionData_INVOKE, VmType: vm, Payload: data}
	payload, _ := td.Marshal()
	return payload
}

func (b *txBuilder) bvm(k *Key, to constant.BoltContractAddress, method string, args ...*pb.Arg) *pb.BxhTransaction {
	return b.finish(k, &pb.BxhTransaction{To: to.Address(), Payload: invokePayload(pb.TransactionData_BVM, method, args...)}, true)
}

func (b *txBuilder) bvmAddr(k *Key, to *types.Address, method string, args ...*pb.Arg) *pb.BxhTransaction {
	return b.finish(k, &pb.BxhTransaction{To: to, Payload: invokePayload(pb.TransactionData_BVM, method, args...)}, true)
}

func (b *txBuilder) xvmDeploy(k *Key, code []byte) *pb.BxhTransaction {
	td := &pb.TransactionData{Type: pb.TransactionData_INVOKE, VmType: pb.TransactionData_XVM, Payload: code}
	payload, _ := td.Marshal()
	return b.finish(k, &pb.BxhTransaction{To: &types.Address{}, Payload: payload}, true)
}

func (b *txBuilder) xvmInvoke(k *Key, to *types.Address, method string, args ...*pb.Arg) *pb.BxhTransaction {
	return b.finish(k, &pb.BxhTransaction{To: to, Payload: invokePayload(pb.TransactionData_XVM, method, args...)}, true)
}

// ibtpTx wraps an IBTP the way a pier submits it: BVM call HandleIBTP + IBTP field + proof in Extra.
func (b *txBuilder) ibtpTx(k *Key, ibtp *pb.IBTP, proof []byte, setHash bool) *pb.BxhTransaction {
	if setHash {
		h := sha256.Sum256(proof)
		ibtp.Proof = h[:]
	}
	ibtpd, _ := ibtp.Marshal()
	tx := &pb.BxhTransaction{To: constant.InterchainContractAddr.Address(),
		Payload: invokePayload(pb.TransactionData_BVM, "HandleIBTP", pb.Bytes(ibtpd)), IBTP: ibtp, Extra: proof}
	return b.finish(k, tx, true)
}

// view transactions are never signed nor counted
func viewTx(k *Key, to constant.BoltContractAddress, method string, args ...*pb.Arg) pb.Transaction {
	tx := &pb.BxhTransaction{From: k.Addr, To: to.Address(), Payload: invokePayload(pb.TransactionData_BVM, method, args...), Timestamp: 1, Nonce: 1 << 40}
	tx.TransactionHash = tx.Hash()
	return tx
}

func fullServiceID(bxh uint64, chain, service string) string {
	return fmt.Sprintf("%d:%s:%s", bxh, chain, service)
}
