package chainsim

import (
	"encoding/json"
	"fmt"
	"strings"

	"github.com/meshplus/bitxhub-core/governance"
	"github.com/meshplus/bitxhub-model/constant"
	"github.com/meshplus/bitxhub-model/pb"
)

// Nodes and audit administrators (C16: "appchains, services, rules, roles and nodes change governance status only
// along their declared state machines"). Three audit nodes and two audit administrators; two nodes and one
// administrator are registered in the prologue. Every operation is a block of its own; proposals stay open until a
// vote step or a `decide` operation concludes them, so that several proposals on related objects (a node, the
// administrator bound to it) are open at the same time.

func (s *scn) auditNode(i int) *Key  { return keyFor(fmt.Sprintf("c16-auditnode-%d", ((i%3)+3)%3)) }
func (s *scn) auditAdmin(i int) *Key { return keyFor(fmt.Sprintf("c16-auditadmin-%d", ((i%2)+2)%2)) }

func (s *scn) setupAudit() {
	a0 := s.cfg.World.adminKey(0)
	perm := s.chains[0].id
	for i := 0; i < 2; i++ {
		n := s.auditNode(i)
		if !s.govApprove(a0, constant.NodeManagerContractAddr, "register-audit-node", n.Addr.String(), "RegisterNode", pb.String(n.Addr.String()), pb.String("nvpNode"), pb.String(""), pb.Uint64(0), pb.String(fmt.Sprintf("c16-audit-%d", i)), pb.String(perm), pb.String("reason")) {
			return
		}
	}
	aa := s.auditAdmin(0)
	s.govApprove(a0, constant.RoleContractAddr, "register-audit-admin", aa.Addr.String(), "RegisterRole", pb.String(aa.Addr.String()), pb.String("auditAdmin"), pb.String(s.auditNode(0).Addr.String()), pb.String("reason"))
}

// isAuditObject: the id of one of the audit nodes or audit administrators
func (s *scn) isAuditObject(id string) bool {
	for i := 0; i < 3; i++ {
		if s.auditNode(i).Addr.String() == id {
			return true
		}
	}
	for i := 0; i < 2; i++ {
		if s.auditAdmin(i).Addr.String() == id {
			return true
		}
	}
	return false
}

func (s *scn) applyAudit(st CStep) {
	if !s.cfg.AuditOps || s.gov == nil {
		return
	}
	w := s.cfg.World
	by := w.adminKey(st.N % w.Admins)
	node, adm := s.auditNode(st.A), s.auditAdmin(st.A)
	S := pb.String
	s.flush()
	var tx *pb.BxhTransaction
	target := ""
	switch st.Act {
	case "regnode":
		target = node.Addr.String()
		tx = s.b.bvm(by, constant.NodeManagerContractAddr, "RegisterNode", S(target), S("nvpNode"), S(""), pb.Uint64(0), S(fmt.Sprintf("c16-audit-%d-%d", st.A%3, s.step)), S(s.chains[0].id), S("reason"))
	case "logoutnode":
		target = node.Addr.String()
		tx = s.b.bvm(by, constant.NodeManagerContractAddr, "LogoutNode", S(target), S("reason"))
	case "updatenode":
		target = node.Addr.String()
		tx = s.b.bvm(by, constant.NodeManagerContractAddr, "UpdateNode", S(target), S(fmt.Sprintf("c16-upd-%d-%d", st.A%3, s.step)), S(s.chains[st.B%len(s.chains)].id), S("reason"))
	case "selfupdate":
		// the audit administrator itself updates a node (allowed for the node it is bound to while it is available)
		by = adm
		target = s.auditNode(st.B).Addr.String()
		tx = s.b.bvm(by, constant.NodeManagerContractAddr, "UpdateNode", S(target), S(fmt.Sprintf("c16-self-%d-%d", st.B%3, s.step)), S(s.chains[0].id), S("reason"))
	case "regadmin":
		target = adm.Addr.String()
		tx = s.b.bvm(by, constant.RoleContractAddr, "RegisterRole", S(target), S("auditAdmin"), S(s.auditNode(st.B).Addr.String()), S("reason"))
	case "bind":
		target = adm.Addr.String()
		tx = s.b.bvm(by, constant.RoleContractAddr, "BindRole", S(target), S(s.auditNode(st.B).Addr.String()), S("reason"))
	case "logoutrole":
		target = adm.Addr.String()
		tx = s.b.bvm(by, constant.RoleContractAddr, "LogoutRole", S(target), S("reason"))
	case "decide", "withdraw":
		// every administrator votes V on one of the open proposals that govern an audit object (or its sponsor withdraws it)
		var cands []string
		for _, id := range s.gov.open {
			if pv, _ := s.gov.proposal(id); pv != nil && pv.Status == "proposed" && s.isAuditObject(pv.ObjId) {
				cands = append(cands, id)
			}
		}
		if len(cands) == 0 {
			return
		}
		pid := cands[st.B%len(cands)]
		if st.Act == "withdraw" {
			sp := s.auditSponsor[pid]
			if sp == nil {
				return
			}
			s.add(s.b.bvm(sp, constant.GovernanceContractAddr, "WithdrawProposal", S(pid), S("reason")), &txMeta{kind: "gov", sender: sp, note: "audop/withdraw", target: "audit*"})
			s.flush()
			s.res.Count("audit_proposal_withdrawn")
			return
		}
		v := "approve"
		if st.V == "reject" {
			v = "reject"
		}
		for i := 0; i < w.Admins; i++ {
			k := w.adminKey(i)
			s.add(s.b.bvm(k, constant.GovernanceContractAddr, "Vote", S(pid), S(v), S("r")), &txMeta{kind: "vote", sender: k, note: v, target: pid})
		}
		s.flush()
		s.res.Count("audit_proposal_decided_" + v)
		return
	default:
		return
	}
	s.add(tx, &txMeta{kind: "gov", sender: by, note: "audop/" + st.Act, target: target})
	rs := s.flush()
	if rs == nil || len(rs.Receipts) == 0 {
		return
	}
	rc := rs.Receipts[len(rs.Receipts)-1]
	g := &governance.GovernanceResult{}
	if rc.Status == pb.Receipt_SUCCESS {
		s.res.Count("audit_op_accepted_" + st.Act)
		if json.Unmarshal(rc.Ret, g) == nil && g.ProposalID != "" {
			if s.auditSponsor == nil {
				s.auditSponsor = map[string]*Key{}
			}
			s.auditSponsor[g.ProposalID] = by
		}
	}
}

// auditSubmit: one audit operation in a block of its own; returns the id of the proposal it opened ("" if refused).
func (s *scn) auditSubmit(by *Key, to constant.BoltContractAddress, act, target, method string, args ...*pb.Arg) string {
	s.flush()
	s.add(s.b.bvm(by, to, method, args...), &txMeta{kind: "gov", sender: by, note: "audop/" + act, target: target})
	rs := s.flush()
	if rs == nil || len(rs.Receipts) == 0 {
		return ""
	}
	rc := rs.Receipts[len(rs.Receipts)-1]
	g := &governance.GovernanceResult{}
	if rc.Status != pb.Receipt_SUCCESS || json.Unmarshal(rc.Ret, g) != nil {
		return ""
	}
	s.res.Count("audit_op_accepted_" + act)
	if g.ProposalID != "" {
		if s.auditSponsor == nil {
			s.auditSponsor = map[string]*Key{}
		}
		s.auditSponsor[g.ProposalID] = by
	}
	return g.ProposalID
}

// auditDecide: every administrator votes v on the proposal ("withdraw": its sponsor withdraws it).
func (s *scn) auditDecide(pid, v string) {
	if pid == "" || s.fatal || s.res.Aborted != "" {
		return
	}
	w := s.cfg.World
	if v == "withdraw" {
		if sp := s.auditSponsor[pid]; sp != nil {
			s.add(s.b.bvm(sp, constant.GovernanceContractAddr, "WithdrawProposal", pb.String(pid), pb.String("reason")), &txMeta{kind: "gov", sender: sp, note: "audop/withdraw", target: "audit*"})
			s.flush()
		}
		return
	}
	for i := 0; i < w.Admins; i++ {
		k := w.adminKey(i)
		s.add(s.b.bvm(k, constant.GovernanceContractAddr, "Vote", pb.String(pid), pb.String(v), pb.String("r")), &txMeta{kind: "vote", sender: k, note: v, target: pid})
	}
	s.flush()
}

// applyAuditCycle: the entangled case of a node and the audit administrator bound to it. The administrator's node is
// logged out (the administrator is frozen), a binding to another node is proposed, then - drawn - an operation on that
// node and a logout of the administrator are proposed, and the open proposals are decided in a drawn order with drawn
// outcomes. The oracles are the ordinary ones (status changes with cause, logged out is final, an object with an open
// proposal stays in that operation's pending status).
func (s *scn) applyAuditCycle(st CStep) {
	if !s.cfg.AuditOps || s.gov == nil {
		return
	}
	w := s.cfg.World
	by := w.adminKey(st.N % w.Admins)
	S := pb.String
	type roleRec struct {
		NodeAccount string `json:"node_account"`
		Status      string `json:"status"`
	}
	lookup := func(k *Key) *roleRec {
		rcs := s.reps[0].viewCall(viewTx(s.users[0], constant.RoleContractAddr, "GetRoleInfoById", S(k.Addr.String())))
		rv := &roleRec{}
		if len(rcs) != 1 || rcs[0] == nil || rcs[0].Status != pb.Receipt_SUCCESS || json.Unmarshal(rcs[0].Ret, rv) != nil || rv.NodeAccount == "" {
			return nil
		}
		return rv
	}
	// the first audit administrator that has not been logged out (the second one is registered when needed)
	adm := s.auditAdmin(0)
	rvp := lookup(adm)
	if rvp == nil || rvp.Status == "forbidden" {
		adm = s.auditAdmin(1)
		if rvp = lookup(adm); rvp == nil {
			for i := 0; i < 3 && rvp == nil; i++ {
				n := s.auditNode(i).Addr.String()
				if s.gov.objStatus["node:"+n] == "available" {
					s.auditDecide(s.auditSubmit(by, constant.RoleContractAddr, "regadmin", adm.Addr.String(), "RegisterRole", S(adm.Addr.String()), S("auditAdmin"), S(n), S("reason")), "approve")
					rvp = lookup(adm)
				}
			}
		}
	}
	if rvp == nil || rvp.Status == "forbidden" {
		return
	}
	rv := *rvp
	if st.B%5 == 4 && rv.Status == "available" {
		// the administrator is logged out while an update of its node is being voted on; afterwards it tries to act again
		upd := s.auditSubmit(by, constant.NodeManagerContractAddr, "updatenode", rv.NodeAccount, "UpdateNode", S(rv.NodeAccount), S(fmt.Sprintf("c16-upd-%d", s.step)), S(s.chains[0].id), S("reason"))
		s.auditDecide(s.auditSubmit(by, constant.RoleContractAddr, "logoutrole", adm.Addr.String(), "LogoutRole", S(adm.Addr.String()), S("reason")), "approve")
		s.auditDecide(upd, []string{"approve", "reject", "withdraw"}[st.N%3])
		s.auditSubmit(adm, constant.NodeManagerContractAddr, "selfupdate", rv.NodeAccount, "UpdateNode", S(rv.NodeAccount), S(fmt.Sprintf("c16-self-%d", s.step)), S(s.chains[0].id), S("reason"))
		s.res.Count("audit_cycle_logged_out_admin_acts")
		return
	}
	other := ""
	for i := 0; i < 3; i++ {
		if a := s.auditNode(st.A + i).Addr.String(); a != rv.NodeAccount {
			other = a
			break
		}
	}
	if rv.Status == "available" {
		s.auditDecide(s.auditSubmit(by, constant.NodeManagerContractAddr, "logoutnode", rv.NodeAccount, "LogoutNode", S(rv.NodeAccount), S("reason")), "approve")
	}
	bindP := s.auditSubmit(by, constant.RoleContractAddr, "bind", adm.Addr.String(), "BindRole", S(adm.Addr.String()), S(other), S("reason"))
	if bindP == "" {
		return
	}
	s.res.Count("audit_cycle_bind_proposed")
	nodeP, roleP := "", ""
	switch st.B % 3 {
	case 0:
		nodeP = s.auditSubmit(by, constant.NodeManagerContractAddr, "logoutnode", other, "LogoutNode", S(other), S("reason"))
	case 1:
		nodeP = s.auditSubmit(by, constant.NodeManagerContractAddr, "updatenode", other, "UpdateNode", S(other), S(fmt.Sprintf("c16-cyc-%d", s.step)), S(s.chains[0].id), S("reason"))
	}
	if st.B%2 == 0 || nodeP == "" {
		roleP = s.auditSubmit(by, constant.RoleContractAddr, "logoutrole", adm.Addr.String(), "LogoutRole", S(adm.Addr.String()), S("reason"))
	}
	if nodeP != "" && roleP != "" {
		s.res.Count("audit_cycle_three_proposals_open")
	}
	outcomes := []string{"approve", "reject", "withdraw"}
	order := [][]string{{roleP, bindP, nodeP}, {nodeP, roleP, bindP}, {bindP, nodeP, roleP}, {roleP, nodeP, bindP}}[st.N%4]
	x := st.A
	for _, pid := range order {
		v := outcomes[x%3]
		if pid == roleP && roleP != "" && st.N%2 == 0 {
			v = []string{"reject", "withdraw"}[x%2] // the administrator's logout does not go through: it stays in play
		}
		x = x/3 + 1
		s.auditDecide(pid, v)
	}
}

// transitional status an object is in while a proposal of the given event is being voted on (declared state machines:
// register -> registering, update -> updating, freeze -> freezing, activate -> activating, logout -> logouting,
// bind -> binding)
var transitionalOf = map[string]string{"register": "registering", "update": "updating", "freeze": "freezing", "activate": "activating", "logout": "logouting", "bind": "binding"}

var objKeyPrefix = map[string]string{"appchain_mgr": "chain:", "service_mgr": "svc:", "role_mgr": "role:", "node_mgr": "node:", "rule_mgr": "rule:"}

// checkOpenProposalStatus: an object governed by a proposal that is open for voting is in the transitional status of
// that proposal's operation; it leaves it only when that proposal is approved, rejected, withdrawn or suspended by a
// higher-priority operation on the same object (which the proposal's own status then shows).
func (gm *govModel) checkOpenProposalStatus(h uint64, curSt map[string]string, touched map[string]bool) {
	s := gm.s
	if gm.tainted == nil {
		gm.tainted = map[string]bool{}
	}
	if s.cfg.AuditOps {
		gm.checkNodeBindings(h, curSt)
	}
	views := map[string]*proposalView{}
	openOn := map[string]int{} // object key -> proposals open for voting on it
	for _, id := range gm.open {
		pv, _ := gm.proposal(id)
		if pv == nil || pv.Status != "proposed" {
			continue
		}
		views[id] = pv
		openOn[objKeyPrefix[pv.Typ]+pv.ObjId]++
	}
	if gm.tainted == nil {
		gm.tainted = map[string]bool{}
	}
	for _, id := range gm.open {
		pv := views[id]
		if pv == nil {
			continue
		}
		pre, ok := objKeyPrefix[pv.Typ]
		want := transitionalOf[pv.EventType]
		if pv.Typ == "rule_mgr" && pv.EventType == "update" {
			want = "binding" // a master-rule update: the proposed rule is being bound (the old master is unbinding)
		}
		if !ok || want == "" {
			continue
		}
		key := pre + pv.ObjId
		got, seen := curSt[key]
		if pv.Typ == "service_mgr" && openOn[key] >= 2 && !gm.tainted[key] {
			// two proposals open for voting on one service: only the appchain's unpause does that (it restores a suspended
			// proposal of the service although another one is open, DESIGN 7.4); what this service does from here on is a
			// consequence of that cascade, not judged
			s.res.Count("probe_service_with_two_open_proposals")
			gm.tainted[key] = true
		}
		if !seen || got == "<none>" || gm.tainted[key] {
			continue
		}
		s.res.Count("probe_open_proposal_status_checked")
		if got != want {
			if pv.Typ == "service_mgr" && touched[strings.Split(pv.ObjId, ":")[0]] {
				// "... or a cascading operation of the owning appchain": the appchain was operated on in this block (an
				// operation, or the conclusion of one of its proposals, rule updates included) and paused / unpaused its
				// services. Observed on the pinned tree: the unpause restores a suspended lower-priority proposal of a
				// service although a higher-priority proposal of that service is still open, so that two proposals are open
				// on it and an approved logout then ends in 'frozen' - along declared edges, driven by the cascade, so no
				// verdict here (DESIGN 7.4)
				s.res.Count("probe_service_moved_by_appchain_cascade_while_its_proposal_is_open")
				gm.tainted[key] = true
				continue
			}
			discr := pv.Typ + "/" + pv.EventType + "/" + got
			if openOn[key] >= 2 {
				discr = pv.Typ + "/two-proposals-open-on-the-object"
			}
			s.vio("C16", "object-left-its-pending-operation", discr, "after block %d: proposal %s (%s %s on %s) is still open for voting, yet the object has status %s instead of %s (%d proposals are open for voting on it): it was moved by something other than this proposal's approval or rejection", h, id, pv.Typ, pv.EventType, pv.ObjId, got, want, openOn[key])
			gm.tainted[key] = true // one defect, one report: what follows on this object is a consequence
		}
	}
}

// govSubmit: one governance operation in a block of its own, left open; returns the proposal id ("" if refused or
// if the operation needs no vote).
func (s *scn) govSubmit(by *Key, to constant.BoltContractAddress, note, target, method string, args ...*pb.Arg) string {
	s.flush()
	s.add(s.b.bvm(by, to, method, args...), &txMeta{kind: "gov", sender: by, note: note, target: target})
	rs := s.flush()
	if rs == nil || len(rs.Receipts) == 0 {
		return ""
	}
	rc := rs.Receipts[len(rs.Receipts)-1]
	g := &governance.GovernanceResult{}
	if rc.Status != pb.Receipt_SUCCESS || json.Unmarshal(rc.Ret, g) != nil {
		return ""
	}
	if g.ProposalID != "" {
		if s.auditSponsor == nil {
			s.auditSponsor = map[string]*Key{}
		}
		s.auditSponsor[g.ProposalID] = by
	}
	return g.ProposalID
}

// applySvcCycle: a service and its appchain are operated on in turn - an operation on the service (freeze, logout,
// update), then one on the appchain (freeze, logout, update, and the activation later), then another one on the
// service (activate, logout) - and each proposal is approved, rejected, withdrawn or left open, as drawn. This is where
// the cascade of an appchain operation meets a service that is in a state of its own or has a proposal of its own
// pending. The verdicts come from the ordinary oracles (gating, cause, logged out is final, frozen / logged-out
// appchain has no usable service, pending status while a proposal is open).
func (s *scn) applySvcCycle(st CStep) {
	if s.gov == nil || len(s.chains) == 0 {
		return
	}
	w := s.cfg.World
	c := s.chains[st.A%len(s.chains)]
	sv := c.services[st.B%len(c.services)]
	sid := c.id + ":" + sv.id
	ga := w.adminKey(st.N % w.Admins)
	S := pb.String
	x := st.N
	next := func(n int) int { v := x % n; x = x/n + 7; return v }
	outcome := func() string { return []string{"approve", "approve", "approve", "reject", "withdraw", "open"}[next(6)] }
	decide := func(pid string) {
		if o := outcome(); o != "open" {
			s.auditDecide(pid, o)
		}
	}
	// 1. the service
	switch next(3) {
	case 0:
		decide(s.govSubmit(ga, constant.ServiceMgrContractAddr, "freeze-service/govadmin/"+sid, sid, "FreezeService", S(sid), S("reason")))
	case 1:
		decide(s.govSubmit(c.admin, constant.ServiceMgrContractAddr, "logout-service/chainadmin/"+sid, sid, "LogoutService", S(sid), S("reason")))
	}
	// 2. the appchain
	var chainP string
	switch next(4) {
	case 0:
		chainP = s.govSubmit(ga, constant.AppchainMgrContractAddr, "freeze-chain/govadmin/"+c.id, c.id, "FreezeAppchain", S(c.id), S("reason"))
	case 1:
		chainP = s.govSubmit(c.admin, constant.AppchainMgrContractAddr, "logout-chain/chainadmin/"+c.id, c.id, "LogoutAppchain", S(c.id), S("reason"))
	case 2:
		chainP = s.govSubmit(c.admin, constant.AppchainMgrContractAddr, "update-chain/chainadmin/"+c.id, c.id, "UpdateAppchain", S(c.id), S(fmt.Sprintf("name-%s-c%d", c.id, s.step)), S("desc"), pb.Bytes(nil), S(c.admin.Addr.String()), S("reason"))
	}
	decide(chainP)
	// 3. the service again
	switch next(3) {
	case 0:
		decide(s.govSubmit(ga, constant.ServiceMgrContractAddr, "activate-service/govadmin/"+sid, sid, "ActivateService", S(sid), S("reason")))
	case 1:
		decide(s.govSubmit(c.admin, constant.ServiceMgrContractAddr, "logout-service/chainadmin/"+sid, sid, "LogoutService", S(sid), S("reason")))
	}
	// 4. the appchain comes back (or not)
	if next(2) == 0 {
		decide(s.govSubmit(ga, constant.AppchainMgrContractAddr, "activate-chain/govadmin/"+c.id, c.id, "ActivateAppchain", S(c.id), S("reason")))
	}
	s.res.Count("svc_cycle")
}

// checkNodeBindings: an audit node that is being bound (status binding) is held by the open registration or binding
// proposal of one audit administrator; it leaves that status by the conclusion of that proposal or by an operation on
// the node itself - not because some other administrator, whose record still names the node from an earlier, rejected
// binding, is logged out.
func (gm *govModel) checkNodeBindings(h uint64, curSt map[string]string) {
	s := gm.s
	if gm.bindingBy == nil {
		gm.bindingBy, gm.bindingLast = map[string]string{}, map[string]string{}
	}
	// which open proposal binds which node
	open := map[string]*proposalView{}
	for _, id := range gm.open {
		pv, _ := gm.proposal(id)
		if pv == nil {
			continue
		}
		open[id] = pv
		if pv.Typ != "role_mgr" || (pv.EventType != "register" && pv.EventType != "bind") || pv.Status != "proposed" || !s.isAuditObject(pv.ObjId) {
			continue
		}
		rcs := s.reps[0].viewCall(viewTx(s.users[0], constant.RoleContractAddr, "GetRoleInfoById", pb.String(pv.ObjId)))
		var rv struct {
			NodeAccount string `json:"node_account"`
		}
		if len(rcs) == 1 && rcs[0] != nil && rcs[0].Status == pb.Receipt_SUCCESS && json.Unmarshal(rcs[0].Ret, &rv) == nil && rv.NodeAccount != "" {
			if _, known := gm.bindingBy["node:"+rv.NodeAccount]; !known && curSt["node:"+rv.NodeAccount] == "binding" {
				gm.bindingBy["node:"+rv.NodeAccount] = id
			}
		}
	}
	for key, pid := range gm.bindingBy {
		pv := open[pid]
		if pv == nil || pv.Status != "proposed" {
			delete(gm.bindingBy, key) // concluded or suspended: the proposal no longer holds the node
			continue
		}
		last := gm.bindingLast[key]
		gm.bindingLast[key] = curSt[key]
		switch curSt[key] {
		case "binding", "logouting", "updating":
			continue // held, or under an operation of its own
		}
		if last == "logouting" && curSt[key] == "forbidden" {
			// the node's own logout was approved while the binding was still being voted on: an operation on the node
			// itself, and a status it never leaves (the logged-out oracle watches that)
			s.res.Count("probe_node_logged_out_while_binding_pending")
			delete(gm.bindingBy, key)
			continue
		}
		s.res.Count("probe_node_released_while_binding_pending")
		if !gm.tainted[key] {
			s.vio("C16", "node-released-while-its-binding-is-pending", curSt[key], "after block %d: audit node %s has status %s although proposal %s (%s of audit administrator %s), which put it into 'binding', is still open for voting and nothing was submitted on the node itself", h, key[5:], curSt[key], pid, pv.EventType, pv.ObjId)
			gm.tainted[key] = true
		}
		delete(gm.bindingBy, key)
	}
}
