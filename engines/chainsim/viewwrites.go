package chainsim

import (
	"fmt"
	"sort"
	"strings"

	"github.com/meshplus/bitxhub-kit/types"
	"github.com/meshplus/bitxhub-model/constant"
	"github.com/meshplus/bitxhub-model/pb"
	"github.com/meshplus/bitxhub/verif/sim"
)

// viewQueries: the read-only questions an API client asks (the same set pokeViews sends).
func (s *scn) viewQueries() []pb.Transaction {
	if len(s.users) == 0 {
		return nil
	}
	who := s.users[0]
	var q []pb.Transaction
	if s.ibtp != nil {
		ids := s.ibtp.order
		if len(ids) > 12 {
			ids = ids[len(ids)-12:]
		}
		for _, id := range ids {
			q = append(q, viewTx(who, constant.TransactionMgrContractAddr, "GetStatus", pb.String(id)))
		}
		var ks []string
		for k := range s.ibtp.pairs {
			ks = append(ks, k)
		}
		sort.Strings(ks)
		for _, k := range ks {
			q = append(q, viewTx(who, constant.InterchainContractAddr, "GetInterchain", pb.String(s.ibtp.pairs[k].from)))
		}
	}
	for _, c := range s.chains {
		q = append(q, viewTx(who, constant.AppchainMgrContractAddr, "GetAppchain", pb.String(c.id)))
		for _, sv := range c.services {
			q = append(q, viewTx(who, constant.ServiceMgrContractAddr, "GetServiceInfo", pb.String(c.id+":"+sv.id)))
		}
	}
	ps := s.proposals
	if len(ps) > 8 {
		ps = ps[len(ps)-8:]
	}
	for _, id := range ps {
		q = append(q, viewTx(who, constant.GovernanceContractAddr, "GetProposal", pb.String(id)))
	}
	return q
}

func answers(rcs []*pb.Receipt) []string {
	var out []string
	for _, rc := range rcs {
		if rc == nil {
			out = append(out, "<nil>")
			continue
		}
		out = append(out, fmt.Sprintf("%v|%s", rc.Status, rc.Ret))
	}
	return out
}

// viewWrites decides the second sentence of C07: "read-only (view) execution never changes ledger state or chain
// metadata at all". After a block the transactions that block carried — every one of them wrote when it was executed:
// nonce, fee, balances, interchain counters, proposals, contract records — are sent once more through the node's
// read-only executor (what `SendView` of the API does with whatever a client submits), followed by a plain transfer
// between two funded accounts. Nothing the node stores may differ afterwards: state store, index store, chain meta,
// what the read-write ledger answers for the accounts involved, and what the read-only executor itself answers to the
// queries it answered before. The following blocks are judged as always (twin, receipts), so a write that only
// lingered in memory shows there.
func (s *scn) viewWrites(h uint64, txs []*pb.BxhTransaction, metas []*txMeta) {
	r := s.reps[0]
	if r.view == nil || r.lg == nil {
		return
	}
	q := s.viewQueries()
	stateBefore, chainBefore := r.stateKV.Dump(nil), r.chainKV.Dump(nil)
	metaBefore := chainMetaString(r.lg.GetChainMeta())
	var ansBefore []string
	if len(q) > 0 {
		ansBefore = answers(r.viewCall(q...))
	}
	var addrs []*types.Address
	seen := map[string]bool{}
	for _, tx := range txs {
		for _, a := range []*types.Address{tx.From, tx.To} {
			if a != nil && !seen[a.String()] {
				seen[a.String()] = true
				addrs = append(addrs, a)
			}
		}
	}
	type acct struct{ bal, nonce string }
	read := func() []acct {
		var out []acct
		for _, a := range addrs {
			out = append(out, acct{r.lg.GetBalance(a).String(), fmt.Sprint(r.lg.GetNonce(a))})
		}
		return out
	}
	acctBefore := read()

	var w []pb.Transaction
	for i, tx := range txs {
		w = append(w, blockTx(tx, metas[i]))
	}
	if len(s.users) >= 2 {
		td := &pb.TransactionData{Type: pb.TransactionData_NORMAL, Amount: "1"}
		payload, _ := td.Marshal()
		t := &pb.BxhTransaction{From: s.users[0].Addr, To: s.users[1].Addr, Payload: payload, Timestamp: 1, Nonce: 1 << 41}
		t.TransactionHash = t.Hash()
		w = append(w, t)
	}
	// fresh writers too: whatever lifecycle operation applies to each appchain and service right now, votes of every
	// administrator on the latest proposals (each of them writes records and lists others by prefix)
	for _, c := range s.chains {
		for _, m := range []string{"FreezeAppchain", "ActivateAppchain", "LogoutAppchain"} {
			w = append(w, viewTx(c.admin, constant.AppchainMgrContractAddr, m, pb.String(c.id), pb.String("reason")))
		}
		for _, sv := range c.services {
			for _, m := range []string{"FreezeService", "ActivateService", "LogoutService"} {
				w = append(w, viewTx(c.admin, constant.ServiceMgrContractAddr, m, pb.String(c.id+":"+sv.id), pb.String("reason")))
			}
		}
	}
	ps := s.proposals
	if len(ps) > 3 {
		ps = ps[len(ps)-3:]
	}
	for _, id := range ps {
		for i := 0; i < s.cfg.World.Admins; i++ {
			w = append(w, viewTx(s.cfg.World.adminKey(i), constant.GovernanceContractAddr, "Vote", pb.String(id), pb.String("approve"), pb.String("r")))
		}
	}
	rcs := r.viewCall(w...)
	ok := 0
	for _, rc := range rcs {
		if rc != nil && rc.Status == pb.Receipt_SUCCESS {
			ok++
		}
	}
	s.res.Count("fault_state_writing_calls_through_the_read_only_executor")
	s.res.Add("view_write_calls", int64(len(w)))
	s.res.Add("view_write_calls_succeeded", int64(ok))
	s.logf("  view: %d state-writing transactions sent through the read-only executor after block %d, %d succeeded", len(w), h, ok)

	if d := sim.DiffDumps(stateBefore, r.stateKV.Dump(nil)); len(d) > 0 {
		s.vio("C07", "view-execution-changed-state", "state-store", "after block %d, %d transactions executed read-only changed %d keys of the state store: %q", h, len(w), len(d), trimKeys(d))
	}
	if d := sim.DiffDumps(chainBefore, r.chainKV.Dump(nil)); len(d) > 0 {
		s.vio("C07", "view-execution-changed-state", "index-store", "after block %d, %d transactions executed read-only changed %d keys of the chain index store: %q", h, len(w), len(d), trimKeys(d))
	}
	if m := chainMetaString(r.lg.GetChainMeta()); m != metaBefore {
		s.vio("C07", "view-execution-changed-state", "chain-meta", "after block %d, transactions executed read-only changed the chain meta: %s -> %s", h, metaBefore, m)
	}
	if r.pol.ApiReader == 0 {
		for i, a := range read() {
			if a != acctBefore[i] {
				s.vio("C07", "view-execution-changed-state", "account-read-through-the-ledger", "after block %d, transactions executed read-only changed what the ledger answers for %s: balance %s nonce %s -> balance %s nonce %s", h, addrs[i].String(), acctBefore[i].bal, acctBefore[i].nonce, a.bal, a.nonce)
				break
			}
		}
	}
	if len(q) > 0 {
		ansAfter := answers(r.viewCall(q...))
		for i := range ansAfter {
			if i < len(ansBefore) && ansAfter[i] != ansBefore[i] {
				bt := q[i].(*pb.BxhTransaction)
				s.vio("C07", "view-execution-changed-state", "answer-of-the-read-only-executor", "after block %d, %d transactions executed read-only changed the answer to query %d (%s): %q -> %q", h, len(w), i, strings.TrimSpace(payloadMethod(bt)), clip(ansBefore[i], 120), clip(ansAfter[i], 120))
				break
			}
		}
	}
}

func chainMetaString(m *pb.ChainMeta) string {
	if m == nil {
		return "<nil>"
	}
	hs := "<nil>"
	if m.BlockHash != nil {
		hs = m.BlockHash.String()
	}
	return fmt.Sprintf("height=%d hash=%s interchain=%d", m.Height, hs, m.InterchainTxCount)
}

func clip(s string, n int) string {
	if len(s) > n {
		return s[:n] + "…"
	}
	return s
}

func payloadMethod(tx *pb.BxhTransaction) string {
	td := &pb.TransactionData{}
	if err := td.Unmarshal(tx.Payload); err != nil {
		return "?"
	}
	ip := &pb.InvokePayload{}
	if err := ip.Unmarshal(td.Payload); err != nil {
		return "?"
	}
	return ip.Method
}
