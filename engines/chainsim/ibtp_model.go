package chainsim

import (
	"fmt"
	"math"
	"sort"
	"strconv"
	"strings"

	"github.com/meshplus/bitxhub-model/constant"
	"github.com/meshplus/bitxhub-model/pb"
)

// Reference model of one-to-one interchain traffic, written from the statements of C02, C04 and
// C06. "Accepted" is read from the receipt (SUCCESS), never predicted.

const (
	stNone          = -1
	stBegin         = int(pb.TransactionStatus_BEGIN)
	stBeginFailure  = int(pb.TransactionStatus_BEGIN_FAILURE)
	stBeginRollback = int(pb.TransactionStatus_BEGIN_ROLLBACK)
	stSuccess       = int(pb.TransactionStatus_SUCCESS)
	stFailure       = int(pb.TransactionStatus_FAILURE)
	stRollback      = int(pb.TransactionStatus_ROLLBACK)
)

func stName(s int) string {
	if s < 0 {
		return "NONE"
	}
	return pb.TransactionStatus(s).String()
}

func isFinal(s int) bool { return s == stSuccess || s == stFailure || s == stRollback }

type pairModel struct {
	from, to     string
	reqAccepted  uint64
	rcptAccepted uint64
	reqCursor    uint64 // accepted + in-flight "next" requests of the block being packed
	rcptCursor   uint64
	batch        bool // destination is un-ordered: index order is not enforced (statement: "ordered service pair")
}

func (p *pairModel) reqSubmitted() uint64  { return p.reqCursor }
func (p *pairModel) rcptSubmitted() uint64 { return p.rcptCursor }
func (p *pairModel) noteReqSubmitted(idx uint64) {
	if idx == p.reqCursor+1 {
		p.reqCursor = idx
	}
}
func (p *pairModel) noteRcptSubmitted(idx uint64) {
	if idx == p.rcptCursor+1 {
		p.rcptCursor = idx
	}
}

type txModel struct {
	id       string
	pair     *pairModel
	status   int
	h        uint64 // block that accepted the request
	expiry   uint64 // 0 = never
	timedOut bool
	finalAt  uint64
	group    int
}

type ibtpModel struct {
	s     *scn
	pairs map[string]*pairModel
	txs   map[string]*txModel
	order []string // ids in acceptance order
}

func newIbtpModel(s *scn) *ibtpModel {
	return &ibtpModel{s: s, pairs: map[string]*pairModel{}, txs: map[string]*txModel{}}
}

func (m *ibtpModel) pair(from, to string) *pairModel {
	k := from + "|" + to
	p, ok := m.pairs[k]
	if !ok {
		p = &pairModel{from: from, to: to}
		m.pairs[k] = p
	}
	return p
}

func (m *ibtpModel) pickIndex(base uint64, sel string) uint64 {
	switch sel {
	case "dup":
		return base
	case "skip":
		return base + 2
	case "zero":
		return 0
	case "huge":
		return 1 << 63
	case "old":
		if base > 1 {
			return base - 1
		}
		return 1
	default:
		return base + 1
	}
}

func chainOf(fullService string) string {
	p := strings.Split(fullService, ":")
	if len(p) != 3 {
		return ""
	}
	if p[0] == relayHubID {
		return "default_union_pier_id" // a service on another BitXHub is reached through the union pier
	}
	return p[1]
}

func proofClass(note string) string {
	for _, c := range []string{"proof-absent", "proof-hash-mismatch", "proof-refused-by-bit-rule", "proof-refused-by-fabsim-rule"} {
		if strings.Contains(note, c) {
			return c
		}
	}
	if strings.Contains(note, "signers=") {
		return "too-few-validator-signatures"
	}
	return "other"
}

func counterHas(meta *pb.InterchainMeta, chain string, txIndex int) int {
	if meta == nil || meta.Counter == nil {
		return 0
	}
	n := 0
	if sl, ok := meta.Counter[chain]; ok {
		for _, v := range sl.Slice {
			if int(v.Index) == txIndex {
				n++
			}
		}
	}
	return n
}

func counterHasAnywhere(meta *pb.InterchainMeta, txIndex int) bool {
	if meta == nil {
		return false
	}
	for _, sl := range meta.Counter {
		for _, v := range sl.Slice {
			if int(v.Index) == txIndex {
				return true
			}
		}
	}
	return false
}

func (m *ibtpModel) afterBlock(h uint64, txs []*pb.BxhTransaction, metas []*txMeta, ref *blockResult) {
	s := m.s
	for i, tx := range txs {
		ib := tx.IBTP
		mt := metas[i]
		if ib == nil && mt.kind == "entry" {
			ib = mt.ibtp
		}
		if ib == nil || i >= len(ref.Receipts) {
			continue
		}
		rc := ref.Receipts[i]
		accepted := rc.Status == pb.Receipt_SUCCESS
		if mt.kind == "entry" && accepted {
			s.vio("C03", "unverified-entry-point", strings.Split(mt.note, "/")[0], "block %d tx %d: a plain invocation of %s by an external account made the interchain contract process IBTP %s-%s-%d without any proof check", h, i, mt.note, ib.From, ib.To, ib.Index)
			s.vio("C17", "unprivileged-ibtp-processing", strings.Split(mt.note, "/")[0], "block %d tx %d: a plain invocation of %s processed IBTP %s-%s-%d", h, i, mt.note, ib.From, ib.To, ib.Index)
			s.res.Count("probe_entry_point_accepted")
		}
		pm := m.pair(ib.From, ib.To)
		id := fmt.Sprintf("%s-%s-%d", ib.From, ib.To, ib.Index)
		if oneToOne := m.txs[id]; (ib.Group != nil && !(ib.Category() == pb.IBTP_RESPONSE && oneToOne != nil && oneToOne.group == 0 && (s.grp == nil || s.grp.byChild[id] == nil))) || pm.batch {
			continue // one-to-many children (and pairs carrying them) are handled by the group model
		}
		if !accepted {
			s.res.Count("ibtp_rejected")
			// a rejected IBTP is never announced as a delivery (C02, C07)
			if counterHasAnywhere(ref.Meta, i) {
				s.vio("C02", "rejected-ibtp-delivered", "", "block %d tx %d: IBTP %s was rejected (%q) but is listed in the block's delivery set", h, i, id, rc.Ret)
				s.vio("C07", "failed-tx-delivered", "", "block %d tx %d: failed IBTP transaction %s is announced in the block's delivery set", h, i, id)
			}
			continue
		}
		s.res.Count("ibtp_accepted")
		if s.cfg.RuleOps && mt.judge != nil && mt.judge.ruleAt >= h && mt.judge.ruleAt != 0 {
			// the master rule of the judging chain changed in this very block: no verdict on its proofs
		} else if !mt.proofOK && mt.kind != "entry" {
			s.vio("C03", "unverified-ibtp-accepted", proofClass(mt.note), "block %d tx %d: IBTP %s was accepted although its proof is %s", h, i, id, mt.note)
		}
		if old, ok := m.txs[id]; ok && mt.kind == "notice" && old.status != stNone {
			// the destination hub's verdict on a request this hub accepted earlier
			s.res.Count("xhub_notice_accepted")
			prev, next := old.status, stNone
			if prev == stBegin {
				next = stFailure
				if strings.Contains(mt.note, "BEGIN_ROLLBACK") {
					next = stRollback
				}
			}
			if next == stNone {
				s.vio("C04", "illegal-transition", stName(prev)+"+notice", "block %d tx %d: the other BitXHub's notice (%s) for %s was accepted although the transaction was in status %s", h, i, mt.note, id, stName(prev))
				continue
			}
			old.status, old.finalAt = next, h
			if ib.Index > pm.rcptAccepted {
				pm.rcptAccepted = ib.Index
			}
			continue
		}
		if ib.Category() == pb.IBTP_REQUEST {
			if !pm.batch && ib.Index != pm.reqAccepted+1 {
				cls := "gap"
				if ib.Index <= pm.reqAccepted {
					cls = "repeat"
				}
				s.vio("C02", "request-out-of-order", cls, "block %d tx %d: request %s accepted but the pair has %d accepted requests (next must be %d)", h, i, id, pm.reqAccepted, pm.reqAccepted+1)
			}
			if ib.Index > pm.reqAccepted {
				pm.reqAccepted = ib.Index
			}
			if old, ok := m.txs[id]; ok && old.status != stNone {
				s.vio("C02", "request-accepted-twice", "", "block %d tx %d: request %s accepted again (status was %s)", h, i, id, stName(old.status))
			}
			tm := &txModel{id: id, pair: pm, status: stBegin, h: h}
			if rc.TxStatus == pb.TransactionStatus_BEGIN_FAILURE || string(rc.Ret) == "begin_failure" {
				tm.status = stBeginFailure
				s.res.Count("probe_begin_failure")
			}
			t := ib.TimeoutHeight
			if strings.HasPrefix(ib.To, relayHubID+":") && !strings.HasPrefix(ib.From, relayHubID+":") {
				t = 0 // between two BitXHubs the destination hub keeps the time; the source hub learns of a timeout by its notice
				s.res.Count("xhub_request_accepted")
			}
			if t > 0 && uint64(t) < math.MaxUint64-h && tm.status == stBegin {
				tm.expiry = h + uint64(t)
			}
			m.txs[id] = tm
			m.order = append(m.order, id)
			// delivered exactly once, in this block, to the destination chain
			if n := counterHas(ref.Meta, chainOf(ib.To), i); n != 1 && tm.status == stBegin {
				s.vio("C02", "delivery", "request", "block %d tx %d: accepted request %s is listed %d times in the delivery set of chain %s (want exactly once): %s", h, i, id, n, chainOf(ib.To), metaString(ref.Meta))
			}
		} else {
			tm := m.txs[id]
			if tm == nil {
				s.vio("C02", "receipt-without-request", "", "block %d tx %d: receipt for %s accepted but no such request was accepted", h, i, id)
				continue
			}
			if !pm.batch && ib.Index != pm.rcptAccepted+1 {
				cls := "gap"
				if ib.Index <= pm.rcptAccepted {
					cls = "repeat"
				}
				s.vio("C02", "receipt-out-of-order", cls, "block %d tx %d: receipt %s accepted but the pair has %d finalised receipts", h, i, id, pm.rcptAccepted)
			}
			if ib.Index > pm.rcptAccepted {
				pm.rcptAccepted = ib.Index
			}
			prev := tm.status
			next := stNone
			switch ib.Type {
			case pb.IBTP_RECEIPT_SUCCESS:
				if prev == stBegin {
					next = stSuccess
				}
			case pb.IBTP_RECEIPT_FAILURE:
				switch prev {
				case stBegin, stBeginFailure:
					next = stFailure
				case stBeginRollback:
					next = stRollback
				}
			case pb.IBTP_RECEIPT_ROLLBACK:
				if prev == stBeginRollback {
					next = stRollback
				}
			}
			if next == stNone {
				s.vio("C04", "illegal-transition", stName(prev)+"+"+ib.Type.String(), "block %d tx %d: receipt %s of type %s was accepted in status %s, which the protocol does not allow", h, i, id, ib.Type, stName(prev))
				if tm.timedOut {
					s.vio("C06", "receipt-after-timeout", ib.Type.String(), "block %d tx %d: %s timed out, yet a %s receipt was accepted", h, i, id, ib.Type)
				}
				continue
			}
			tm.status = next
			tm.finalAt = h
			if prev == stBegin && tm.expiry != 0 && h <= tm.expiry {
				s.res.Count("probe_receipt_before_or_at_expiry")
				if h == tm.expiry {
					s.res.Count("probe_receipt_in_expiry_block")
				}
			}
		}
	}
	// the delivery set lists nothing but IBTPs this very block accepted ("in the block that accepted it and in no other")
	if ref.Meta != nil {
		var dests []string
		for c := range ref.Meta.Counter {
			dests = append(dests, c)
		}
		sort.Strings(dests)
		for _, c := range dests {
			seen := map[uint64]bool{}
			for _, v := range ref.Meta.Counter[c].Slice {
				i := int(v.Index)
				switch {
				case i >= len(txs) || i >= len(ref.Receipts):
					s.vio("C02", "delivery", "entry-without-transaction", "block %d: the delivery set of chain %s lists transaction index %d, the block has %d transactions: %s", h, c, i, len(txs), metaString(ref.Meta))
				case ref.Receipts[i].Status != pb.Receipt_SUCCESS:
					// reported above for one-to-one IBTPs (rejected-ibtp-delivered)
				case txs[i].IBTP == nil && metas[i].kind != "entry":
					s.vio("C02", "delivery", "entry-not-an-ibtp", "block %d: the delivery set of chain %s lists transaction %d (%s), which carries no IBTP", h, c, i, metas[i].kind)
				case txs[i].IBTP != nil && chainOf(txs[i].IBTP.From) != c && chainOf(txs[i].IBTP.To) != c:
					s.vio("C02", "delivery", "entry-for-uninvolved-chain", "block %d: transaction %d (%s -> %s) is listed for chain %s", h, i, txs[i].IBTP.From, txs[i].IBTP.To, c)
				case seen[v.Index]:
					s.vio("C02", "delivery", "entry-twice", "block %d: transaction %d is listed twice for chain %s", h, i, c)
				}
				seen[v.Index] = true
			}
		}
	}
	// expiry: requests still BEGIN at their timeout height move to BEGIN_ROLLBACK in exactly this block
	expect := map[string][]string{}
	for _, id := range m.order {
		tm := m.txs[id]
		if tm.expiry == h && tm.status == stBegin {
			tm.status = stBeginRollback
			tm.timedOut = true
			c := chainOf(tm.pair.from)
			expect[c] = append(expect[c], id)
			s.res.Count("probe_timeout_fired")
		}
	}
	got := map[string][]string{}
	if ref.Meta != nil {
		groupIDs := map[string]bool{}
		for _, tx := range txs {
			if ib := tx.IBTP; ib != nil && ib.Group != nil && ib.Category() == pb.IBTP_REQUEST {
				groupIDs[fmt.Sprintf("%s-%s-%d", ib.From, ib.To, ib.Index)] = true
			}
		}
		for c, sl := range ref.Meta.TimeoutCounter {
			for _, id := range sl.Slice {
				if groupIDs[id] || (s.grp != nil && s.grp.byChild[id] != nil) {
					continue // children of one-to-many groups are judged by the group model
				}
				got[c] = append(got[c], id)
			}
		}
	}
	for c := range expect {
		sort.Strings(expect[c])
	}
	for c := range got {
		sort.Strings(got[c])
	}
	if fmt.Sprint(expect) != fmt.Sprint(got) {
		// classify
		cls := "missing"
		for c, ids := range got {
			for _, id := range ids {
				found := false
				for _, e := range expect[c] {
					if e == id {
						found = true
					}
				}
				if !found {
					cls = "unexpected"
					if tm := m.txs[id]; tm != nil {
						cls = "unexpected-" + stName(tm.status)
					}
				}
			}
		}
		s.vio("C06", "timeout-notifications", cls, "block %d: timeout notifications %v, expected exactly %v (requests accepted with timeout T at H, still without accepted receipt at H+T)", h, got, expect)
	}
	m.resetCursors()
	m.verifyViaQueries(h)
}

func (m *ibtpModel) resetCursors() {
	for _, p := range m.pairs {
		p.reqCursor = p.reqAccepted
		p.rcptCursor = p.rcptAccepted
	}
}

// verifyViaQueries compares GetStatus and GetInterchain with the model after every block.
func (m *ibtpModel) verifyViaQueries(h uint64) {
	s := m.s
	if len(m.order) == 0 && len(m.pairs) == 0 {
		return
	}
	r := s.reps[0]
	who := s.users[0]
	// statuses of the most recent ids
	ids := m.order
	if len(ids) > 24 {
		ids = ids[len(ids)-24:]
	}
	var q []pb.Transaction
	for _, id := range ids {
		q = append(q, viewTx(who, constant.TransactionMgrContractAddr, "GetStatus", pb.String(id)))
	}
	if len(q) > 0 {
		rcs := r.viewCall(q...)
		for i, id := range ids {
			tm := m.txs[id]
			if i >= len(rcs) || rcs[i] == nil {
				continue
			}
			got := stNone
			if rcs[i].Status == pb.Receipt_SUCCESS {
				if v, err := strconv.Atoi(string(rcs[i].Ret)); err == nil {
					got = v
				}
			}
			if got != tm.status {
				discr := stName(tm.status) + "->" + stName(got)
				s.vio("C04", "status-mismatch", discr, "after block %d: GetStatus(%s) = %s, the accepted events lead to %s (request accepted in block %d, expiry %d, finalised in block %d)", h, id, stName(got), stName(tm.status), tm.h, tm.expiry, tm.finalAt)
				s.vio("C06", "status-mismatch", discr, "after block %d: GetStatus(%s) = %s, expected %s (request accepted in block %d with expiry %d, receipt accepted in block %d)", h, id, stName(got), stName(tm.status), tm.h, tm.expiry, tm.finalAt)
				tm.status = got // resynchronise so that one defect is reported once, not at every later block
			}
		}
	}
	// counters
	keys := make([]string, 0, len(m.pairs))
	for k := range m.pairs {
		keys = append(keys, k)
	}
	sort.Strings(keys)
	services := map[string]bool{}
	for _, k := range keys {
		services[m.pairs[k].from] = true
		services[m.pairs[k].to] = true
	}
	var svcs []string
	for sv := range services {
		svcs = append(svcs, sv)
	}
	sort.Strings(svcs)
	q = nil
	for _, sv := range svcs {
		q = append(q, viewTx(who, constant.InterchainContractAddr, "GetInterchain", pb.String(sv)))
	}
	rcs := r.viewCall(q...)
	ics := map[string]*pb.Interchain{}
	noRecord := map[string]bool{}
	for i, sv := range svcs {
		ic := &pb.Interchain{}
		if i < len(rcs) && rcs[i] != nil && rcs[i].Status == pb.Receipt_SUCCESS {
			_ = ic.Unmarshal(rcs[i].Ret)
		} else if strings.HasSuffix(sv, ":ghost") || strings.HasSuffix(sv, ":sl") {
			noRecord[sv] = true // a service that was never registered has no record to mirror anything on
		}
		ics[sv] = ic
	}
	for _, k := range keys {
		p := m.pairs[k]
		if p.batch {
			continue
		}
		src, dst := ics[p.from], ics[p.to]
		if g := src.InterchainCounter[p.to]; g != p.reqAccepted {
			s.vio("C02", "counter", "interchain", "after block %d: interchain counter of %s towards %s is %d, accepted requests %d", h, p.from, p.to, g, p.reqAccepted)
			p.reqAccepted, p.reqCursor = g, g
		}
		if g := src.ReceiptCounter[p.to]; g != p.rcptAccepted {
			s.vio("C02", "counter", "receipt", "after block %d: receipt counter of %s towards %s is %d, finalised receipts %d", h, p.from, p.to, g, p.rcptAccepted)
			p.rcptAccepted, p.rcptCursor = g, g
		}
		if noRecord[p.to] {
			continue
		}
		if g := dst.SourceInterchainCounter[p.from]; g != p.reqAccepted {
			s.vio("C02", "counter", "source-interchain", "after block %d: destination-side counter of %s for %s is %d, accepted requests %d", h, p.to, p.from, g, p.reqAccepted)
		}
		if g := dst.SourceReceiptCounter[p.from]; g != p.rcptAccepted {
			s.vio("C02", "counter", "source-receipt", "after block %d: destination-side receipt counter of %s for %s is %d, finalised receipts %d", h, p.to, p.from, g, p.rcptAccepted)
		}
	}
}
