package chainsim

import (
	"encoding/json"
	"fmt"

	"github.com/bytecodealliance/wasmtime-go"
	"github.com/meshplus/bitxhub-kit/types"
	"github.com/meshplus/bitxhub-model/constant"
	"github.com/meshplus/bitxhub-model/pb"
	"github.com/meshplus/bitxhub/pkg/utils"
)

// bitRuleWat: a validation rule that accepts a proof iff proof[0]&1 == 1 (the "plain false" case
// of C03 is reachable: the rule returns 0 without raising an error).
const bitRuleWat = `(module
  (memory (export "memory") 2)
  (global $next (mut i32) (i32.const 1024))
  (func (export "allocate") (param $n i32) (result i32)
    (local $p i32)
    (local.set $p (global.get $next))
    (global.set $next (i32.add (global.get $next) (local.get $n)))
    (local.get $p))
  (func (export "deallocate") (param i32 i32)
    (global.set $next (i32.const 1024)))
  (func (export "start_verify") (param $proof i32) (param $validators i32) (param $payload i32) (result i32)
    (i32.and (i32.load8_u (local.get $proof)) (i32.const 1))))`

var bitRuleWasm = func() []byte {
	b, err := wasmtime.Wat2Wasm(bitRuleWat)
	if err != nil {
		panic(err)
	}
	return b
}()

const relayHubID = "1357"

// ruleAccepts is the harness's own judgement of a proof, fixed by construction of the rules.
func ruleAccepts(rule string, proof []byte) bool {
	switch rule {
	case "bit":
		return len(proof) > 0 && proof[0]&1 == 1
	case "fabsim":
		return false // only garbage proofs are generated for it
	default:
		return true
	}
}

// relay hub: validators of the other BitXHub
func relayValidator(i int) *Key { return keyFor(fmt.Sprintf("relay-validator-%d", i)) }

func relayTrustRoot(n int) []byte {
	var addrs []string
	for i := 0; i < n; i++ {
		addrs = append(addrs, relayValidator(i).Addr.String())
	}
	b, _ := json.Marshal(map[string][]string{"addresses": addrs})
	return b
}

// relayProof signs (ibtp, status) with the listed signer indexes; index >= 100 means a key that
// is not a registered validator. Returns the proof and the number of distinct registered signers.
func relayProof(ib *pb.IBTP, status pb.TransactionStatus, signers []int, n int) ([]byte, int) {
	hash, err := utils.EncodePackedAndHash(ib, status)
	if err != nil {
		panic(err)
	}
	bp := &pb.BxhProof{TxStatus: status}
	seen := map[int]bool{}
	distinct := 0
	for _, si := range signers {
		k := relayValidator(si)
		sig, err := k.Priv.Sign(hash)
		if err != nil {
			panic(err)
		}
		bp.MultiSign = append(bp.MultiSign, sig)
		if si < n && !seen[si] {
			seen[si] = true
			distinct++
		}
	}
	b, _ := bp.Marshal()
	return b, distinct
}

func (s *scn) deployBitRule() *types.Address {
	u := s.users[0]
	s.add(s.b.xvmDeploy(u, bitRuleWasm), &txMeta{kind: "setup", sender: u})
	rs := s.flush()
	if rs == nil || len(rs.Receipts) == 0 || rs.Receipts[len(rs.Receipts)-1].Status != pb.Receipt_SUCCESS {
		if rs != nil && len(rs.Receipts) > 0 {
			s.res.Aborted = "setup: rule deploy failed: " + string(rs.Receipts[len(rs.Receipts)-1].Ret)
		}
		return nil
	}
	return types.NewAddress(rs.Receipts[len(rs.Receipts)-1].Ret)
}

var _ = constant.InterchainContractAddr
