package chainsim

import (
	"encoding/json"
	"fmt"
	"github.com/meshplus/bitxhub-core/governance"
	"sort"
	"strings"

	"github.com/bytecodealliance/wasmtime-go"
	"github.com/meshplus/bitxhub-kit/types"
	"github.com/meshplus/bitxhub-model/constant"
	"github.com/meshplus/bitxhub-model/pb"
	"github.com/meshplus/bitxhub/pkg/utils"
)

// bitRuleWat: a validation rule that accepts a proof iff proof[0]&1 == 1 (the "plain false" case
// of C03 is reachable: the rule returns 0 without raising an error).
const bitRuleWat = `(module
  (memory (export "memory") 2)
  (global $next (mut i32) (i32.const 1024))
  (func (export "allocate") (param $n i32) (result i32)
    (local $p i32)
    (local.set $p (global.get $next))
    (global.set $next (i32.add (global.get $next) (local.get $n)))
    (local.get $p))
  (func (export "deallocate") (param i32 i32)
    (global.set $next (i32.const 1024)))
  (func (export "start_verify") (param $proof i32) (param $validators i32) (param $payload i32) (result i32)
    (i32.and (i32.load8_u (local.get $proof)) (i32.const 1))))`

var bitRuleWasm = func() []byte {
	b, err := wasmtime.Wat2Wasm(bitRuleWat)
	if err != nil {
		panic(err)
	}
	return b
}()

const relayHubID = "1357"

// ruleAccepts is the harness's own judgement of a proof, fixed by construction of the rules.
func ruleAccepts(rule string, proof []byte) bool {
	switch rule {
	case "bit":
		return len(proof) > 0 && proof[0]&1 == 1
	case "fabsim":
		return false // only garbage proofs are generated for it
	case "none":
		return false // no rule is bound to the appchain (it was logged out): nothing can be verified for it
	default:
		return true
	}
}

// relay hub: validators of the other BitXHub
func relayValidator(i int) *Key { return keyFor(fmt.Sprintf("relay-validator-%d", i)) }

func relayTrustRoot(n int) []byte { return relayTrustRootOf(0, n) }

// relayTrustRootOf: validators first..first+n-1
func relayTrustRootOf(first, n int) []byte {
	var addrs []string
	for i := first; i < first+n; i++ {
		addrs = append(addrs, relayValidator(i).Addr.String())
	}
	b, _ := json.Marshal(map[string][]string{"addresses": addrs})
	return b
}

// relayProof signs (ibtp, status) with the listed signer indexes; registered tells which validator indexes
// are in the trust root currently stored for the other BitXHub. Returns the proof and the number of
// distinct registered signers.
func relayProof(ib *pb.IBTP, status pb.TransactionStatus, signers []int, registered map[int]bool) ([]byte, int) {
	hash, err := utils.EncodePackedAndHash(ib, status)
	if err != nil {
		panic(err)
	}
	bp := &pb.BxhProof{TxStatus: status}
	seen := map[int]bool{}
	distinct := 0
	for _, si := range signers {
		k := relayValidator(si)
		sig, err := k.Priv.Sign(hash)
		if err != nil {
			panic(err)
		}
		bp.MultiSign = append(bp.MultiSign, sig)
		if registered[si] && !seen[si] {
			seen[si] = true
			distinct++
		}
	}
	b, _ := bp.Marshal()
	return b, distinct
}

// observeRelaySet reads the trust root currently stored for the other BitXHub (after every block).
func (s *scn) observeRelaySet() {
	if s.cfg.Relay <= 0 {
		return
	}
	rcs := s.reps[0].viewCall(viewTx(s.users[0], constant.AppchainMgrContractAddr, "GetAppchain", pb.String(relayHubID)))
	if len(rcs) != 1 || rcs[0] == nil || rcs[0].Status != pb.Receipt_SUCCESS {
		return
	}
	var ac struct {
		TrustRoot []byte `json:"trust_root"`
	}
	var tr struct {
		Addresses []string `json:"addresses"`
	}
	if json.Unmarshal(rcs[0].Ret, &ac) != nil {
		return
	}
	if json.Unmarshal(ac.TrustRoot, &tr) != nil {
		// the stored trust root is not a validator list: nobody is a registered validator, no proof can be valid
		if s.relayN != 0 {
			s.res.Count("probe_relay_trust_root_unreadable")
		}
		s.relaySet, s.relayN = map[int]bool{}, 0
		return
	}
	set := map[int]bool{}
	for _, a := range tr.Addresses {
		for i := 0; i < 24; i++ {
			if relayValidator(i).Addr.String() == a {
				set[i] = true
			}
		}
	}
	if len(s.relaySet) != 0 && fmt.Sprint(set) != fmt.Sprint(s.relaySet) {
		s.res.Count("probe_relay_trust_root_changed")
	}
	s.relaySet, s.relayN = set, len(tr.Addresses)
}

// applyRelayTrust replaces the validator set of the other BitXHub through governance (UpdateAppchain + votes).
func (s *scn) applyRelayTrust(st CStep) {
	if s.cfg.Relay <= 0 {
		return
	}
	ra := keyFor("relay-admin")
	n := []int{1, 3, 4, 7}[st.N%4]
	first := []int{0, 1, 2, 4, 7}[st.A%5]
	s.flush()
	s.add(s.b.bvm(ra, constant.AppchainMgrContractAddr, "UpdateAppchain", pb.String(relayHubID), pb.String("name-relay"), pb.String("desc"), pb.Bytes(relayTrustRootOf(first, n)),
		pb.String(ra.Addr.String()), pb.String("reason")), &txMeta{kind: "gov", sender: ra, note: fmt.Sprintf("relay-trust-root first=%d n=%d", first, n), target: relayHubID})
	rs := s.flush()
	if rs == nil || len(rs.Receipts) == 0 {
		return
	}
	rc := rs.Receipts[len(rs.Receipts)-1]
	s.logf("%d relaytrust first=%d n=%d -> %v %q", s.step, first, n, rc.Status, rc.Ret)
	g := &governance.GovernanceResult{}
	if rc.Status != pb.Receipt_SUCCESS || json.Unmarshal(rc.Ret, g) != nil || g.ProposalID == "" {
		return
	}
	w := s.cfg.World
	for i := 0; i < w.Admins; i++ {
		k := w.adminKey(i)
		s.add(s.b.bvm(k, constant.GovernanceContractAddr, "Vote", pb.String(g.ProposalID), pb.String("approve"), pb.String("r")), &txMeta{kind: "vote", sender: k, note: "approve", target: g.ProposalID})
	}
	s.flush()
}

// observeMasterRules reads the master rule of every appchain back (after every block).
func (s *scn) observeMasterRules(h uint64) {
	var q []pb.Transaction
	for _, c := range s.chains {
		q = append(q, viewTx(s.users[0], constant.RuleManagerContractAddr, "GetMasterRule", pb.String(c.id)))
	}
	rcs := s.reps[0].viewCall(q...)
	for i, c := range s.chains {
		if c.loggedOut {
			continue // "logged out is final": the rules were cleared with the appchain
		}
		kind := "unknown"
		if i < len(rcs) && rcs[i] != nil && rcs[i].Status == pb.Receipt_SUCCESS {
			var ru struct {
				Address string `json:"address"`
			}
			_ = json.Unmarshal(rcs[i].Ret, &ru)
			switch {
			case strings.EqualFold(ru.Address, happyRule):
				kind = "happy"
			case s.bitAddr != "" && strings.EqualFold(ru.Address, s.bitAddr):
				kind = "bit"
			case strings.EqualFold(ru.Address, "0x00000000000000000000000000000000000000a1"):
				kind = "fabsim"
			}
		}
		if kind != c.rule {
			s.res.Count("probe_master_rule_changed")
			s.logf("  master rule of %s: %s -> %s", c.id, c.rule, kind)
			c.rule, c.ruleAt = kind, h
		}
	}
}

// applyRuleOp: rule lifecycle of an appchain (register another rule, update the master rule through governance with
// an approving or rejecting vote, log a rule out).
func (s *scn) applyRuleOp(st CStep) {
	if s.bitAddr == "" {
		return
	}
	c := s.chains[st.A%len(s.chains)]
	if s.gov != nil && st.A%2 == 0 {
		// half of the time on an appchain that is frozen right now, if there is one (rule updates are allowed there)
		for _, x := range s.chains {
			if s.gov.objStatus["chain:"+x.id] == "frozen" && x.rule != "fabsim" {
				c = x
				s.res.Count("probe_rule_operation_on_frozen_appchain")
				break
			}
		}
	}
	if c.rule == "fabsim" {
		return // Fabric-type appchains accept other rule sets; not modelled
	}
	target := []string{happyRule, s.bitAddr}[st.N%2]
	s.flush()
	switch st.Act {
	case "register":
		s.add(s.b.bvm(c.admin, constant.RuleManagerContractAddr, "RegisterRule", pb.String(c.id), pb.String(s.bitAddr), pb.String("url")), &txMeta{kind: "gov", sender: c.admin, note: "register-rule/" + c.id, target: c.id})
		s.flush()
		return
	case "logout":
		s.add(s.b.bvm(c.admin, constant.RuleManagerContractAddr, "LogoutRule", pb.String(c.id), pb.String(target)), &txMeta{kind: "gov", sender: c.admin, note: "logout-rule/" + c.id, target: c.id})
		s.flush()
		return
	}
	rulesBefore := s.ruleStatuses(c)
	s.add(s.b.bvm(c.admin, constant.RuleManagerContractAddr, "UpdateMasterRule", pb.String(c.id), pb.String(target), pb.String("reason")), &txMeta{kind: "gov", sender: c.admin, note: fmt.Sprintf("update-master-rule/%s/%s", c.id, map[bool]string{true: "happy", false: "bit"}[target == happyRule]), target: c.id})
	rs := s.flush()
	if rs == nil || len(rs.Receipts) == 0 {
		return
	}
	rc := rs.Receipts[len(rs.Receipts)-1]
	g := &governance.GovernanceResult{}
	if rc.Status != pb.Receipt_SUCCESS || json.Unmarshal(rc.Ret, g) != nil || g.ProposalID == "" {
		return
	}
	if s.ruleProposalChain == nil {
		s.ruleProposalChain = map[string]string{}
	}
	s.ruleProposalChain[g.ProposalID] = c.id // the proposal governs a rule; its conclusion cascades to the owning appchain
	v := "approve"
	if st.V == "reject" {
		v = "reject"
	}
	w := s.cfg.World
	for i := 0; i < w.Admins; i++ {
		k := w.adminKey(i)
		s.add(s.b.bvm(k, constant.GovernanceContractAddr, "Vote", pb.String(g.ProposalID), pb.String(v), pb.String("r")), &txMeta{kind: "vote", sender: k, note: v, target: g.ProposalID})
	}
	s.flush()
	s.res.Count("rule_updates_" + v)
	// C16, "only along their declared state machines, driven by … its approval or rejection": the rejection of a master-rule
	// update takes both rules back where they were (the old master available and still master, the proposed one bindable).
	// The two blocks of this macro carry nothing but the update and the votes on it.
	if v == "reject" && s.gov != nil && rulesBefore != "" && s.prop == "C16" {
		if pv, _ := s.gov.proposal(g.ProposalID); pv != nil && pv.Status == "reject" {
			s.res.Count("probe_master_rule_update_rejected")
			if after := s.ruleStatuses(c); after != "" && after != rulesBefore {
				s.vio("C16", "rejected-proposal-moved-object", "rule", "the master-rule update %s of appchain %s was rejected, yet the chain's rules are no longer what they were before it was submitted: %s -> %s", g.ProposalID, c.id, rulesBefore, after)
			}
		}
	}
}

// ruleStatuses: the rules of an appchain as the rule manager lists them, canonically ("" if the query fails).
func (s *scn) ruleStatuses(c *mChain) string {
	rcs := s.reps[0].viewCall(viewTx(s.users[0], constant.RuleManagerContractAddr, "Rules", pb.String(c.id)))
	if len(rcs) != 1 || rcs[0] == nil || rcs[0].Status != pb.Receipt_SUCCESS {
		return ""
	}
	var rules []struct {
		Address string `json:"address"`
		Status  string `json:"status"`
		Master  bool   `json:"master"`
	}
	if json.Unmarshal(rcs[0].Ret, &rules) != nil {
		return ""
	}
	var out []string
	for _, ru := range rules {
		out = append(out, fmt.Sprintf("%s=%s/master:%v", strings.ToLower(ru.Address), ru.Status, ru.Master))
	}
	sort.Strings(out)
	return strings.Join(out, " ")
}

func (s *scn) deployBitRule() *types.Address {
	u := s.users[0]
	s.add(s.b.xvmDeploy(u, bitRuleWasm), &txMeta{kind: "setup", sender: u})
	rs := s.flush()
	if rs == nil || len(rs.Receipts) == 0 || rs.Receipts[len(rs.Receipts)-1].Status != pb.Receipt_SUCCESS {
		if rs != nil && len(rs.Receipts) > 0 {
			s.res.Aborted = "setup: rule deploy failed: " + string(rs.Receipts[len(rs.Receipts)-1].Ret)
		}
		return nil
	}
	return types.NewAddress(rs.Receipts[len(rs.Receipts)-1].Ret)
}

var _ = constant.InterchainContractAddr

// applyChainLogout (C03: "against appchains whose rule was changed, logged out or never registered"): the appchain's admin
// asks for its logout and every administrator approves, in blocks of their own. The logout clears the chain's rules, so
// from then on no proof can be verified for the chain: every IBTP it would have to vouch for — requests of its services,
// receipts of requests sent to them, in-flight ones included — is invalid by the statement's rule and must fail without
// effect. At most one chain per run, and never the last one.
func (s *scn) applyChainLogout(st CStep) {
	live := 0
	for _, c := range s.chains {
		if !c.loggedOut {
			live++
		}
	}
	if live < 2 || live < len(s.chains) {
		return
	}
	c := s.chains[st.A%len(s.chains)]
	if !s.govApprove(c.admin, constant.AppchainMgrContractAddr, "logout-appchain/chainadmin/"+c.id, c.id, "LogoutAppchain", pb.String(c.id), pb.String("reason")) {
		return
	}
	rcs := s.reps[0].viewCall(viewTx(s.users[0], constant.AppchainMgrContractAddr, "GetAppchain", pb.String(c.id)))
	if len(rcs) != 1 || rcs[0] == nil || rcs[0].Status != pb.Receipt_SUCCESS {
		return
	}
	var o struct {
		Status string `json:"status"`
	}
	_ = json.Unmarshal(rcs[0].Ret, &o)
	s.logf("  appchain %s after its approved logout: %s", c.id, o.Status)
	if o.Status != "forbidden" {
		return
	}
	c.loggedOut, c.rule, c.ruleAt = true, "none", s.height
	s.res.Count("probe_appchain_logged_out_with_traffic_in_flight")
}
