package chainsim

import (
	"encoding/json"

	"github.com/meshplus/bitxhub/verif/sim"
)

type Engine struct{}

func (Engine) Name() string { return "chainsim" }
func (Engine) Generate(prop string, r *sim.Rand, tier string) *sim.Plan {
	return Generate(prop, r, tier)
}
func (Engine) Execute(prop string, p *sim.Plan, keep bool) *sim.Result { return Execute(prop, p, keep) }
func (Engine) SimplifyStep(prop string, s json.RawMessage) []json.RawMessage {
	return SimplifyStep(s)
}
func (Engine) SimplifyConfig(prop string, c json.RawMessage) []json.RawMessage {
	return SimplifyConfig(c)
}

// Resamples: C01 divergences may depend on native map order / goroutine scheduling, which the
// replay re-samples by executing the recorded plan again (each execution samples fresh orders on
// every replica).
func (Engine) Resamples(prop string) int {
	if prop == "C01" {
		return 24
	}
	return 0
}
