package chainsim

import (
	"encoding/json"
	"fmt"

	"github.com/meshplus/bitxhub/verif/sim"
)

// CConfig is the configuration of one chainsim run.
type CConfig struct {
	World       World    `json:"world"`
	Replicas    []Policy `json:"replicas"`      // [0] is the quiet reference
	Chains      int      `json:"chains"`        // appchains registered in the prologue (2..3)
	Services    int      `json:"services"`      // services per chain (1..2)
	Users       int      `json:"users"`         // funded plain accounts
	Twin        bool     `json:"twin"`          // keep a twin replica for "no effect" checks
	Unordered   bool     `json:"unordered"`     // register the last service of each chain as un-ordered (batch)
	Rules       []string `json:"rules"`         // master rule per chain: happy | bit | fabsim
	Relay       int      `json:"relay"`         // >0: another BitXHub (id 1357) with this many validators is registered as relay chain
	NoFabsimCap bool     `json:"no_fabsim_cap"` // lift the per-run cap on proofs handed to the FabricSim validator (only used by the known-finding replay of the validator-pool wedge)
	Profile     string   `json:"profile"`
	Late        bool     `json:"late"`                  // every chain has one more service ("sl") that is not registered in the prologue: "register" steps submit it during the run
	SplitGroups bool     `json:"split_groups"`          // one-to-many groups only from services of the first chain, one-to-one traffic only from the others (so that the two reference models never share a transaction id)
	SamePairs   bool     `json:"same_pairs"`            // also pairs inside one appchain, incl. a service calling itself
	AuditOps    bool     `json:"audit_ops,omitempty"`   // audit nodes and audit administrators: registration, update, binding, logout, with proposals left open and decided later
	RoleOps     bool     `json:"role_ops"`              // new governance administrators and the audit-administrator cycle are registered during the run (grant clause of C14)
	RuleOps     bool     `json:"rule_ops"`              // rule lifecycle: further rules are registered, the master rule is updated through governance (approved or rejected), rules are logged out
	RefRestart  []int    `json:"ref_restart"`           // profiles with a single replica: it is stopped and reopened after these block indexes
	Rejected    bool     `json:"rejected,omitempty"`    // before the chains were registered, the outsider applied for the same chain ids and was rejected
	KV          bool     `json:"kv,omitempty"`          // a user WASM contract with storage is deployed and invoked (succeeding, trapping, running out of gas)
	BigBlocks   bool     `json:"big_blocks"`            // few cuts: most blocks are filled to the sequencer's limit
	ViewWrites  int      `json:"view_writes,omitempty"` // permille of the blocks after which state-writing transactions are sent through the node's read-only executor (second sentence of C07)
}

// CStep is one symbolic workload step. Operands are resolved against the model at execution time
// so that every plan stays executable under editing.
type CStep struct {
	Op string `json:"op"` // cut | transfer | ibtp | gov | vote | call | raw
	A  int    `json:"a,omitempty"`
	B  int    `json:"b,omitempty"`
	// transfer
	Amt string `json:"amt,omitempty"` // class: zero one small exact over huge junk
	// ibtp
	Pair    int    `json:"pair,omitempty"`    // index into the list of ordered (src service, dst service) pairs
	Kind    string `json:"kind,omitempty"`    // req | ok | fail | rollback
	Idx     string `json:"idx,omitempty"`     // next | dup | skip | zero | huge | old
	T       int64  `json:"t,omitempty"`       // timeout height of a request
	Proof   string `json:"proof,omitempty"`   // "" valid | absent | badhash | reject (the bound rule refuses it)
	Signers []int  `json:"signers,omitempty"` // relay hub: validator indexes signing the proof (>=100: unregistered key)
	Sender  string `json:"sender,omitempty"`  // "" the right chain admin | other | user
	Ghost   bool   `json:"ghost,omitempty"`   // the destination service does not exist on the destination chain
	Group   int    `json:"group,omitempty"`   // >0: one-to-many group id (model-level), see groups
	GKeys   []int  `json:"gkeys,omitempty"`   // group: destination pair indexes of all children
	// governance
	Obj string `json:"obj,omitempty"` // chain | service
	Act string `json:"act,omitempty"` // freeze | activate | logout
	V   string `json:"v,omitempty"`   // vote: approve | reject | junk
	N   int    `json:"n,omitempty"`
	// call
	C      int      `json:"c,omitempty"`
	M      string   `json:"m,omitempty"`
	Args   []string `json:"args,omitempty"`  // typed: "s:abc" "u:12" "b:hex" "B:true" "i:3" "f:1.5"
	Role   string   `json:"role,omitempty"`  // outsider | chainadmin | govadmin | node
	GJ     bool     `json:"gj,omitempty"`    // ibtp receipt: carries a (meaningless) group descriptor although its request was one-to-one
	Local  bool     `json:"local,omitempty"` // LocalList bit (signature not re-verified)
	BadSig bool     `json:"badsig,omitempty"`
	Notice int      `json:"notice,omitempty"` // ibtp request between two local services that carries, in its Extra field, what only another BitXHub's notice carries: 1 begin-failure, 2 begin-rollback; its index is drawn like a receipt's (the oldest request without receipt)
}

func policies(r *sim.Rand, n int) []Policy {
	// the reference replica is quiet (no restarts, shipped cache sizes) but its proof mode is drawn too:
	// "parallel" is what repo.DefaultConfig() ships
	ps := []Policy{{ProofType: []string{"serial", "parallel"}[r.Intn(2)]}}
	for i := 1; i < n; i++ {
		p := Policy{ProofType: []string{"serial", "parallel"}[r.Intn(2)], Cache: []int{0, 1, 2, 4}[r.Intn(4)]}
		for k := 0; k < r.Intn(3); k++ {
			p.RestartAt = append(p.RestartAt, r.Range(1, 40))
		}
		p.Reader = r.Chance(0.35)
		ps = append(ps, p)
	}
	return ps
}

func genWorld(r *sim.Rand) World {
	w := World{Admins: r.Range(1, 4), GasPrice: []uint64{0, 1, 50000, 50000}[r.Intn(4)], Audit: r.Chance(0.5), ChainID: 1356}
	if r.Chance(0.5) {
		w.Normal = r.Intn(w.Admins)
	}
	return w
}

// Generate draws a plan for property prop.
func Generate(prop string, r *sim.Rand, tier string) *sim.Plan {
	cfg := CConfig{World: genWorld(r), Chains: r.Range(2, 3), Services: r.Range(1, 2), Users: 3, Profile: prop}
	if prop == "C15" || prop == "C16" {
		cfg.World.Admins = r.Range(1, 4)
		cfg.World.Normal = 0
		if r.Chance(0.6) {
			cfg.World.Normal = r.Intn(cfg.World.Admins)
		}
		if r.Chance(0.6) {
			cfg.World.Strategy = []string{"a > 0.5 * t", "a >= t", "a >= 1", "a - r >= 2", "a >= 0.75 * t"}[r.Intn(5)]
			if cfg.World.Strategy == "a - r >= 2" && cfg.World.Admins < 2 {
				cfg.World.Strategy = "a >= 1"
			}
		}
	}
	if prop == "C05" {
		cfg.Chains, cfg.Services = 3, r.Range(1, 2) // children spread over one or several destination chains
	}
	nrep := 2
	switch prop {
	case "C01":
		nrep = r.Range(3, 4)
	}
	cfg.Replicas = policies(r, nrep)
	if prop != "C01" {
		// replicas other than the reference only matter for C01; one quiet replica keeps runs cheap
		cfg.Replicas = cfg.Replicas[:1]
	}
	switch prop {
	case "C14":
		// balance queries of API clients land between the statements of the executor's flush/commit path
		if r.Chance(0.6) {
			cfg.Replicas[0].ApiReader = []int{30, 80, 200}[r.Intn(3)]
		}
	case "C01":
		for i := 1; i < len(cfg.Replicas); i++ {
			if !cfg.Replicas[i].Reader && r.Chance(0.4) {
				cfg.Replicas[i].ApiReader = []int{30, 80, 200}[r.Intn(3)]
			}
		}
	default:
		// API clients poll every node: a quarter of the runs of every other profile have the reader on the judged replica
		if r.Chance(0.25) {
			cfg.Replicas[0].ApiReader = []int{30, 80, 200}[r.Intn(3)]
		}
	}
	// replacement of the head block (rollback + re-execution inside the executor): on the judged replica of the IBTP,
	// timeout, group and lifecycle profiles, on the other replicas of C01
	switch prop {
	case "C02", "C04", "C05", "C06", "C16", "C03", "C07", "C14", "C15", "C17":
		if r.Chance(0.3) {
			cfg.Replicas[0].Compete = []int{60, 150, 400}[r.Intn(3)]
		}
	case "C01":
		for i := 1; i < len(cfg.Replicas); i++ {
			if r.Chance(0.3) {
				cfg.Replicas[i].Compete = []int{60, 150, 400}[r.Intn(3)]
			}
		}
	}
	// back-to-back delivery: a lagging replica is handed 2-4 blocks at once (the pre-execution stage of block N+1 runs
	// while block N is executed); C01 compares everything, C03 judges the replica's own receipts
	switch prop {
	case "C01":
		for i := 1; i < len(cfg.Replicas); i++ {
			q := &cfg.Replicas[i]
			if !q.Reader && q.ApiReader == 0 && q.Compete == 0 && r.Chance(0.4) {
				q.Burst = r.Range(2, 4)
			}
			q.Synced = r.Chance(0.3)
		}
	case "C03":
		if r.Chance(0.35) {
			cfg.Replicas = append(cfg.Replicas, Policy{ProofType: []string{"serial", "parallel"}[r.Intn(2)], Burst: r.Range(2, 4), Synced: r.Chance(0.3)})
		}
	case "C07":
		// a second node handed the same blocks back to back: the delivery set it hands on for a block must not list a failed transaction
		if r.Chance(0.25) {
			cfg.Replicas = append(cfg.Replicas, Policy{ProofType: cfg.Replicas[0].ProofType, Burst: r.Range(2, 4), Synced: r.Chance(0.3)})
		}
	case "C02", "C04", "C05", "C06", "C16":
		// a second node handed the same blocks back to back must not accept an IBTP the judged node refused
		if r.Chance(0.2) {
			cfg.Replicas = append(cfg.Replicas, Policy{ProofType: cfg.Replicas[0].ProofType, Burst: r.Range(2, 4), Synced: r.Chance(0.3)})
		}
	}
	switch prop {
	case "C07", "C02", "C03", "C17", "C09", "C12", "C10":
		cfg.Twin = true
	}
	if prop == "C16" && r.Chance(0.3) {
		// requests relayed from another BitXHub to local services whose status changes
		cfg.Relay = []int{1, 3, 4}[r.Intn(3)]
	}
	if prop == "C04" && r.Chance(0.4) {
		// this node as the source hub of transactions towards another BitXHub
		cfg.Relay = []int{1, 3, 4, 7}[r.Intn(4)]
	}
	if prop == "C03" || ((prop == "C01" || prop == "C07") && r.Chance(0.3)) || (prop == "C08" && r.Chance(0.5)) {
		for i := 0; i < cfg.Chains; i++ {
			cfg.Rules = append(cfg.Rules, []string{"happy", "bit", "bit", "fabsim"}[r.Intn(4)])
		}
		if r.Chance(0.5) {
			cfg.Relay = []int{1, 3, 4, 7}[r.Intn(4)]
		}
	}
	n := r.Range(15, 60)
	if tier == "thorough" {
		n = r.Range(15, 160)
	}
	cfg.BigBlocks = r.Chance(0.35)
	cfg.KV = ((prop == "C07" || prop == "C01") && r.Chance(0.5)) || prop == "C13"
	cfg.Rejected = prop == "C17" && r.Chance(0.5)
	if cfg.KV && r.Chance(0.8) {
		// running out of gas means burning the whole limit: a smaller limit keeps those transactions cheap
		cfg.World.GasLimit = []uint64{1000000, 3000000, 10000000}[r.Intn(3)]
	}
	cfg.SplitGroups = prop == "C06"
	cfg.RuleOps = ((prop == "C03" || prop == "C16" || prop == "C17") && r.Chance(0.5)) || (prop == "C01" && len(cfg.Rules) > 0 && r.Chance(0.5))
	cfg.RoleOps = prop == "C14" && r.Chance(0.4)
	cfg.AuditOps = prop == "C16" && r.Chance(0.5)
	switch prop {
	case "C02", "C04", "C06", "C16", "C01":
		cfg.SamePairs = r.Chance(0.4)
	}
	if prop != "C01" && r.Chance(0.5) {
		// node restarts between the blocks (cached vs stored records, in-memory bookkeeping of the executor)
		for k := 0; k < r.Range(1, 3); k++ {
			cfg.RefRestart = append(cfg.RefRestart, r.Range(1, 40))
		}
	}
	switch prop {
	case "C16", "C01", "C02", "C04", "C06":
		cfg.Late = r.Chance(0.5)
	}
	p := &sim.Plan{}
	g := &gen{r: r, cfg: &cfg}
	for i := 0; i < n; i++ {
		for _, s := range g.step(prop) {
			p.Steps = append(p.Steps, sim.MustJSON(s))
		}
	}
	if prop == "C07" && r.Chance(0.5) {
		// drawn last so that everything above is the plan it was before this knob existed
		cfg.ViewWrites = []int{100, 300, 700}[r.Intn(3)]
	}
	p.Config = sim.MustJSON(cfg)
	return p
}

type gen struct {
	r   *sim.Rand
	cfg *CConfig
}

func (g *gen) npairs() int {
	// ordered pairs of services on different chains
	per := g.cfg.Services
	if g.cfg.Late {
		per++
	}
	n := g.cfg.Chains * per
	if g.cfg.SamePairs {
		return n*(n-per) + g.cfg.Chains*per*per
	}
	return n * (n - per)
}

func (g *gen) ibtp() CStep {
	r := g.r
	s := CStep{Op: "ibtp", Pair: r.Intn(g.npairs())}
	switch r.Weighted([]int{10, 6, 2, 1}) {
	case 0:
		s.Kind = "req"
		s.T = []int64{0, 1, 2, 3, 5, 1 << 62, -1}[r.Weighted([]int{3, 3, 3, 3, 2, 1, 1})]
	case 1:
		s.Kind = "ok"
	case 2:
		s.Kind = "fail"
	case 3:
		s.Kind = "rollback"
	}
	s.Idx = []string{"next", "dup", "skip", "zero", "huge", "old"}[r.Weighted([]int{14, 2, 2, 1, 1, 2})]
	if r.Chance(0.06) {
		s.Proof = []string{"absent", "badhash"}[r.Intn(2)]
	}
	if r.Chance(0.05) {
		s.Sender = []string{"other", "user"}[r.Intn(2)]
	}
	if r.Chance(0.07) {
		s.Ghost = true
	}
	if s.Kind != "req" && r.Chance(0.05) {
		s.GJ = true
	}
	if s.Kind == "req" && r.Chance(0.06) {
		s.Notice = 1 + r.Intn(2)
	}
	return s
}

// proofIBTP: IBTP traffic biased towards proof faults (C03)
func (g *gen) proofIBTP() CStep {
	r := g.r
	s := g.ibtp()
	s.Idx = "next"
	s.Sender = ""
	s.Proof = []string{"", "", "reject", "reject", "absent", "badhash"}[r.Intn(6)]
	return s
}

// relayIBTP: an IBTP relayed from the other BitXHub, proven by validator signatures
func (g *gen) relayIBTP() CStep {
	r := g.r
	s := CStep{Op: "relay", Pair: r.Intn(16), Idx: []string{"next", "next", "next", "dup", "skip"}[r.Intn(5)], T: int64(r.Intn(3))}
	n := g.cfg.Relay
	k := r.Intn(n + 2)
	for i := 0; i < k; i++ {
		switch r.Weighted([]int{6, 1, 1}) {
		case 0:
			if r.Chance(0.7) {
				s.Signers = append(s.Signers, r.Intn(n))
			} else {
				s.Signers = append(s.Signers, r.Intn(14)) // registered or not, depending on the trust root in force
			}
		case 1:
			s.Signers = append(s.Signers, 100+r.Intn(3)) // unregistered key
		case 2:
			if len(s.Signers) > 0 {
				s.Signers = append(s.Signers, s.Signers[0]) // duplicate
			} else {
				s.Signers = append(s.Signers, 0)
			}
		}
	}
	if r.Chance(0.1) {
		s.Proof = []string{"absent", "badhash"}[r.Intn(2)]
	}
	return s
}

// entryIBTP: the same IBTP handed to the interchain contract as a plain invocation
func (g *gen) entryIBTP() CStep {
	s := g.ibtp()
	s.Op = "entry"
	s.Idx = "next"
	s.M = []string{"HandleIBTPData", "HandleIBTP"}[g.r.Intn(2)]
	s.Role = []string{"outsider", "chainadmin", "govadmin"}[g.r.Intn(3)]
	return s
}

// call: a direct invocation of an enumerated contract method (resolved at execution time)
func (g *gen) call() CStep {
	r := g.r
	c := r.Intn(64)
	if r.Chance(0.3) {
		c = -1
	}
	return CStep{Op: "call", C: c, N: r.Intn(256), A: r.Intn(1 << 20), B: r.Intn(1 << 20),
		Role: []string{"outsider", "outsider", "outsider", "chainadmin", "otherchainadmin", "govadmin", "node"}[r.Intn(7)]}
}

func (g *gen) govOp() CStep {
	r := g.r
	// (operations concentrate on the first objects so that concurrent proposals on one object are common)
	st := CStep{Op: "gov", A: []int{0, 0, 0, 1, 1, 2, 3}[r.Intn(7)], B: r.Intn(4), N: r.Intn(4), Obj: []string{"chain", "service", "service"}[r.Intn(3)], Act: []string{"freeze", "freeze", "activate", "activate", "logout"}[r.Intn(5)]}
	// the role that is allowed to do it, most of the time
	switch st.Act {
	case "freeze":
		st.Role = "govadmin"
	case "activate":
		st.Role = []string{"chainadmin", "govadmin"}[r.Intn(2)]
	default:
		st.Role = "chainadmin"
	}
	if r.Chance(0.1) {
		st.Role = []string{"outsider", "chainadmin", "govadmin"}[r.Intn(3)]
	}
	switch r.Intn(10) {
	case 0, 1:
		// lifecycle of a governance administrator: the electorate of open proposals changes
		st.Obj, st.Act, st.Role = "role", []string{"freeze", "freeze", "activate", "activate", "logout"}[r.Intn(5)], "govadmin"
	case 2:
		// a service blocks / unblocks a source
		st.Obj, st.Act, st.Role = "service", "block", "chainadmin"
	case 3:
		// the appchain is updated by its admin (name, admin list)
		st.Obj, st.Act, st.Role = "chain", "update", "chainadmin"
	case 4:
		if r.Chance(0.5) {
			// somebody registers an appchain under the id of an existing one (whatever its status, logged out included)
			st.Obj, st.Act, st.Role = "chain", "reregister", "outsider"
		}
	}
	if g.cfg.Late && r.Chance(0.25) {
		// submit the registration of the chain's late service (again, if it was submitted before)
		st.Obj, st.Act, st.B, st.Role = "service", "register", g.cfg.Services, "chainadmin"
	}
	return st
}

func (g *gen) transfer() CStep {
	r := g.r
	classes := []string{"zero", "one", "small", "small", "exact", "over", "huge", "junk", "neg", "neghuge", "nearly"}
	if g.cfg.Twin {
		// twin ("no effect") comparisons need balances that never flip a later outcome: nobody is drained;
		// fee-stage failures come from dedicated poor accounts instead (op "poor")
		classes = []string{"zero", "one", "small", "small", "junk", "huge", "neg"}
	}
	return CStep{Op: "transfer", A: r.Intn(8), B: r.Intn(8), Amt: classes[r.Intn(len(classes))], Local: r.Chance(0.3), BadSig: r.Chance(0.05)}
}

// poor: a transaction sent by an account that cannot pay the fee (fails after the contract ran)
func (g *gen) poor() CStep {
	r := g.r
	s := g.ibtp()
	if r.Chance(0.3) {
		s = g.transfer()
		s.Amt = "one"
	}
	s.Sender = "poor"
	s.N = r.Intn(3)
	return s
}

func (g *gen) cut() CStep { return CStep{Op: "cut"} }

func (g *gen) step(prop string) []CStep {
	r := g.r
	switch prop {
	case "C15", "C16":
		wg := []int{6, 8, 6, 5, 1}
		if prop == "C16" {
			wg = []int{6, 5, 10, 5, 1}
		}
		if g.cfg.RuleOps && r.Chance(0.08) {
			return []CStep{CStep{Op: "ruleop", A: r.Intn(4), N: r.Intn(2), Act: []string{"update", "update", "update", "register", "logout"}[r.Intn(5)], V: []string{"approve", "approve", "reject"}[r.Intn(3)]}}
		}
		if prop == "C16" && g.cfg.Relay > 0 && r.Chance(0.12) {
			st := g.relayIBTP()
			st.Proof = ""
			if r.Chance(0.8) {
				// mostly validly signed: the gate under test is the destination's status, not the proof
				st.Signers = nil
				for i := 0; i < g.cfg.Relay; i++ {
					st.Signers = append(st.Signers, i)
				}
				st.Idx = "next"
			}
			return []CStep{st}
		}
		if prop == "C16" && r.Chance(0.03) {
			return []CStep{CStep{Op: "svccycle", A: r.Intn(3), B: r.Intn(3), N: r.Intn(1 << 20)}}
		}
		if g.cfg.AuditOps && r.Chance(0.04) {
			return []CStep{CStep{Op: "auditcycle", A: r.Intn(27), B: r.Intn(6), N: r.Intn(8)}}
		}
		if g.cfg.AuditOps && r.Chance(0.25) {
			return []CStep{CStep{Op: "audop", A: r.Intn(6), B: r.Intn(6), N: r.Intn(4), V: []string{"approve", "approve", "reject"}[r.Intn(3)],
				Act: []string{"regnode", "logoutnode", "logoutnode", "updatenode", "regadmin", "bind", "bind", "logoutrole", "logoutrole", "decide", "decide", "decide", "withdraw", "selfupdate"}[r.Intn(14)]}}
		}
		if r.Chance(0.04) {
			return []CStep{CStep{Op: "withdraw", N: r.Intn(64)}}
		}
		if prop == "C15" && r.Chance(0.03) {
			return []CStep{CStep{Op: "strategyupdate", A: r.Intn(5), N: r.Intn(5)}}
		}
		if prop == "C15" && r.Chance(0.02) {
			return []CStep{CStep{Op: "rolecycle", A: r.Intn(4), B: r.Intn(4), N: r.Intn(3)}}
		}
		switch r.Weighted(wg) {
		case 0:
			return []CStep{g.govOp()}
		case 1:
			return []CStep{CStep{Op: "vote", N: r.Intn(64), A: r.Intn(16), V: []string{"approve", "approve", "approve", "reject", "reject", "junk"}[r.Intn(6)]}}
		case 2:
			st := g.ibtp()
			st.Proof, st.Sender = "", ""
			if r.Chance(0.8) {
				st.Idx = "next"
			}
			return []CStep{st}
		case 3:
			return []CStep{g.cut()}
		default:
			return []CStep{g.transfer()}
		}
	case "C05":
		wg := []int{3, 10, 10, 6, 1, 1}
		if g.cfg.BigBlocks {
			wg[3] = 2
		}
		switch r.Weighted(wg) {
		case 0:
			return []CStep{CStep{Op: "gopen", Group: r.Intn(3), A: r.Intn(8), B: r.Intn(8), N: r.Intn(3), T: []int64{0, 0, 2, 3, 5}[r.Intn(5)], Ghost: r.Chance(0.2)}}
		case 1:
			return []CStep{CStep{Op: "gchild", Group: r.Intn(3), N: r.Intn(16)}}
		case 2:
			return []CStep{CStep{Op: "grecv", Group: r.Intn(3), N: r.Intn(4), Kind: []string{"ok", "ok", "ok", "fail", "rollback"}[r.Intn(5)]}}
		case 3:
			return []CStep{g.cut()}
		case 4:
			return []CStep{g.ibtp()}
		default:
			return []CStep{g.transfer()}
		}
	case "C08":
		if r.Chance(0.02) {
			return []CStep{CStep{Op: "ghostburst", Pair: r.Intn(16), A: r.Intn(3), N: r.Intn(6), T: int64(r.Range(1, 4))}}
		}
		if r.Chance(0.15) {
			// one-to-many groups: well-formed multi-step traffic that reaches the notification paths
			switch r.Intn(4) {
			case 0:
				return []CStep{CStep{Op: "gopen", Group: r.Intn(3), A: r.Intn(8), B: r.Intn(8), N: r.Intn(3), T: []int64{0, 2, 3}[r.Intn(3)], Ghost: r.Chance(0.2)}}
			case 1, 2:
				return []CStep{CStep{Op: "gchild", Group: r.Intn(3), N: r.Intn(16)}}
			default:
				return []CStep{CStep{Op: "grecv", Group: r.Intn(3), N: r.Intn(4), Kind: []string{"ok", "fail", "fail", "rollback"}[r.Intn(4)]}}
			}
		}
		if r.Chance(0.1) {
			return []CStep{CStep{Op: "eth", A: r.Intn(5), B: r.Intn(16), N: r.Intn(18)}}
		}
		switch r.Weighted([]int{8, 8, 2, 4, 1, 1}) {
		case 0:
			return []CStep{g.call()}
		case 1:
			return []CStep{CStep{Op: "mut", Kind: []string{"ibtp", "ibtp", "xvm", "tx", "tx"}[r.Intn(5)], N: r.Intn(1 << 20), A: r.Intn(8), B: r.Intn(8), Local: r.Chance(0.5)}}
		case 2:
			return []CStep{g.ibtp()}
		case 3:
			return []CStep{g.cut()}
		case 4:
			return []CStep{g.proofIBTP()}
		default:
			return []CStep{g.transfer()}
		}
	case "C17":
		if r.Chance(0.03) {
			// the outsider applies for an appchain of its own, naming a second administrator, and withdraws the application
			return []CStep{CStep{Op: "occupycycle", A: r.Intn(8), N: r.Intn(6), B: r.Intn(1000)}}
		}
		if r.Chance(0.02) {
			// an appchain's admin is replaced through two approved updates; the former admin then tries the chain admin's operations
			return []CStep{CStep{Op: "adminswap", A: r.Intn(3), N: r.Intn(64), B: r.Intn(6)}}
		}
		if r.Chance(0.02) {
			// a module's voting strategy is switched while one of its proposals is open; the outsider then calls the proposal callbacks
			return []CStep{CStep{Op: "zeroswitch", A: r.Intn(8), N: r.Intn(10), B: r.Intn(1000)}}
		}
		switch r.Weighted([]int{14, 3, 4, 1}) {
		case 0:
			return []CStep{g.call()}
		case 1:
			return []CStep{g.ibtp()}
		case 2:
			return []CStep{g.cut()}
		default:
			return []CStep{g.transfer()}
		}
	case "C03":
		w := []int{8, 2, 4, 3, 0}
		if g.cfg.Relay > 0 {
			w[4] = 5
			if r.Chance(0.04) {
				// the other BitXHub's validator set is replaced through governance
				return []CStep{CStep{Op: "relaytrust", N: r.Intn(4), A: r.Intn(5)}}
			}
		}
		if g.cfg.BigBlocks {
			w[2] = 1
		}
		if g.cfg.RuleOps && r.Chance(0.06) {
			return []CStep{CStep{Op: "ruleop", A: r.Intn(4), N: r.Intn(2), Act: []string{"update", "update", "update", "register", "logout"}[r.Intn(5)], V: []string{"approve", "reject"}[r.Intn(2)]}}
		}
		if r.Chance(0.025) {
			// an appchain is logged out (its rules go with it) while requests to and from its services are in flight
			return []CStep{CStep{Op: "chainlogout", A: r.Intn(4)}}
		}
		switch r.Weighted(w) {
		case 0:
			return []CStep{g.proofIBTP()}
		case 1:
			return []CStep{g.ibtp()}
		case 2:
			return []CStep{g.cut()}
		case 3:
			return []CStep{g.entryIBTP()}
		default:
			return []CStep{g.relayIBTP()}
		}
	case "C14":
		if g.cfg.RoleOps && r.Chance(0.05) {
			return []CStep{CStep{Op: "adminreg", A: r.Intn(100), N: r.Intn(4)}}
		}
		if r.Chance(0.3) {
			return []CStep{g.cut()}
		}
		if r.Chance(0.15) {
			return []CStep{g.ibtp()}
		}
		return []CStep{g.transfer()}
	default: // C01, C02, C04, C06, C07: mixed traffic
		if prop == "C13" {
			// node-level form of C13: the records of a user contract written, rewritten and read back across blocks,
			// failed transactions and restarts
			if r.Chance(0.6) {
				return []CStep{CStep{Op: "kv", A: r.Intn(7), B: r.Intn(3), N: r.Intn(30)}}
			}
			if r.Chance(0.5) {
				return []CStep{g.cut()}
			}
			return []CStep{g.transfer()}
		}
		if prop == "C01" || prop == "C07" {
			// every transaction kind the node accepts
			if g.cfg.KV && r.Chance(0.15) {
				return []CStep{CStep{Op: "kv", A: r.Intn(7), B: r.Intn(3), N: r.Intn(30)}}
			}
			if prop == "C01" && g.cfg.RuleOps && r.Chance(0.05) {
				return []CStep{CStep{Op: "ruleop", A: r.Intn(4), N: r.Intn(2), Act: []string{"update", "update", "update", "register", "logout"}[r.Intn(5)], V: []string{"approve", "reject"}[r.Intn(2)]}}
			}
			if prop == "C01" && g.cfg.Relay > 0 && r.Chance(0.02) {
				return []CStep{CStep{Op: "relaytrust", N: r.Intn(4), A: r.Intn(5)}}
			}
			switch r.Intn(12) {
			case 7:
				return []CStep{CStep{Op: "eth", A: r.Intn(5), B: r.Intn(16), N: r.Intn(18)}}
			case 0:
				return []CStep{g.call()}
			case 1:
				return []CStep{CStep{Op: "mut", Kind: []string{"ibtp", "xvm", "tx"}[r.Intn(3)], N: r.Intn(1 << 20), A: r.Intn(8), B: r.Intn(8), Local: r.Chance(0.5)}}
			case 2:
				if len(g.cfg.Rules) > 0 {
					return []CStep{g.proofIBTP()}
				}
			case 3:
				if g.cfg.Relay > 0 {
					return []CStep{g.relayIBTP()}
				}
			case 4:
				if prop == "C01" {
					return []CStep{CStep{Op: "gopen", Group: r.Intn(3), A: r.Intn(8), B: r.Intn(8), N: r.Intn(3), T: []int64{0, 2, 3}[r.Intn(3)]}}
				}
			case 5, 6:
				if prop == "C01" {
					if r.Chance(0.5) {
						return []CStep{CStep{Op: "gchild", Group: r.Intn(3), N: r.Intn(16)}}
					}
					return []CStep{CStep{Op: "grecv", Group: r.Intn(3), N: r.Intn(4), Kind: []string{"ok", "ok", "fail", "rollback"}[r.Intn(4)]}}
				}
			}
		}
		if (prop == "C04" || prop == "C06" || prop == "C01" || prop == "C02") && r.Chance(0.015) {
			return []CStep{CStep{Op: "ghostburst", Pair: r.Intn(16), A: r.Intn(3), N: r.Intn(6), T: int64(r.Range(1, 4))}}
		}
		if prop == "C06" && r.Chance(0.2) {
			// "the same holds for a one-to-many group as a whole"
			switch r.Intn(4) {
			case 0:
				return []CStep{CStep{Op: "gopen", Group: r.Intn(3), A: r.Intn(8), B: r.Intn(8), N: r.Intn(3), T: []int64{0, 1, 2, 3, 5}[r.Intn(5)], Ghost: r.Chance(0.2)}}
			case 1, 2:
				return []CStep{CStep{Op: "gchild", Group: r.Intn(3), N: r.Intn(16)}}
			default:
				return []CStep{CStep{Op: "grecv", Group: r.Intn(3), N: r.Intn(4), Kind: []string{"ok", "ok", "fail", "rollback"}[r.Intn(4)]}}
			}
		}
		if prop == "C04" && g.cfg.Relay > 0 && r.Chance(0.35) {
			st := CStep{Op: "xhub", Pair: r.Intn(8), A: r.Intn(2), Idx: []string{"next", "next", "next", "next", "dup", "old", "skip"}[r.Intn(7)], T: []int64{0, 0, 0, 2, 3}[r.Intn(5)]}
			st.Kind = []string{"req", "req", "req", "ok", "ok", "fail", "rollback", "nfail", "nrollback", "nrollback"}[r.Intn(10)]
			if r.Chance(0.15) {
				for i := 0; i < r.Intn(3); i++ {
					st.Signers = append(st.Signers, r.Intn(g.cfg.Relay+1))
				}
				if len(st.Signers) == 0 {
					st.Signers = []int{100}
				}
			}
			return []CStep{st}
		}
		wd := []int{10, 3, 5, 1, 1, 1, 2}
		if g.cfg.BigBlocks {
			wd[2] = 1
		}
		switch r.Weighted(wd) {
		case 5:
			// lifecycle operations between the IBTPs: destinations and sources become unavailable and come back
			return []CStep{g.govOp()}
		case 6:
			return []CStep{CStep{Op: "vote", N: r.Intn(64), A: r.Intn(16), V: []string{"approve", "approve", "approve", "reject"}[r.Intn(4)]}}
		case 4:
			return []CStep{g.poor()}
		case 0:
			return []CStep{g.ibtp()}
		case 1:
			return []CStep{g.transfer()}
		case 2:
			return []CStep{g.cut()}
		default:
			return []CStep{g.cut(), g.cut()} // an empty block
		}
	}
}

func unmarshalCfg(raw json.RawMessage) (CConfig, error) {
	cfg := CConfig{}
	if err := json.Unmarshal(raw, &cfg); err != nil {
		return cfg, err
	}
	if cfg.Chains < 2 {
		cfg.Chains = 2
	}
	if cfg.Chains > 3 {
		cfg.Chains = 3
	}
	if cfg.Services < 1 {
		cfg.Services = 1
	}
	if cfg.Services > 2 {
		cfg.Services = 2
	}
	if cfg.World.Admins < 1 {
		cfg.World.Admins = 1
	}
	if cfg.World.Admins > 4 {
		cfg.World.Admins = 4
	}
	if cfg.World.Normal < 0 || cfg.World.Normal >= cfg.World.Admins {
		cfg.World.Normal = 0
	}
	if cfg.World.ChainID == 0 {
		cfg.World.ChainID = 1356
	}
	if len(cfg.Replicas) == 0 {
		cfg.Replicas = []Policy{{ProofType: "serial"}}
	}
	if cfg.Users < 1 {
		cfg.Users = 3
	}
	return cfg, nil
}

func SimplifyConfig(raw json.RawMessage) []json.RawMessage {
	cfg, err := unmarshalCfg(raw)
	if err != nil {
		return nil
	}
	var out []json.RawMessage
	if len(cfg.Replicas) > 2 {
		c := cfg
		c.Replicas = cfg.Replicas[:len(cfg.Replicas)-1]
		out = append(out, sim.MustJSON(c))
	}
	for i, p := range cfg.Replicas {
		if len(p.RestartAt) > 0 {
			c := cfg
			c.Replicas = append([]Policy(nil), cfg.Replicas...)
			q := p
			q.RestartAt = p.RestartAt[:len(p.RestartAt)-1]
			c.Replicas[i] = q
			out = append(out, sim.MustJSON(c))
		}
		if p.Reader {
			c := cfg
			c.Replicas = append([]Policy(nil), cfg.Replicas...)
			q := p
			q.Reader = false
			c.Replicas[i] = q
			out = append(out, sim.MustJSON(c))
		}
		if p.Compete != 0 {
			c := cfg
			c.Replicas = append([]Policy(nil), cfg.Replicas...)
			q := p
			q.Compete = 0
			c.Replicas[i] = q
			out = append(out, sim.MustJSON(c))
		}
		if p.ApiReader != 0 {
			c := cfg
			c.Replicas = append([]Policy(nil), cfg.Replicas...)
			q := p
			q.ApiReader = 0
			c.Replicas[i] = q
			out = append(out, sim.MustJSON(c))
		}
		if p.Cache != 0 {
			c := cfg
			c.Replicas = append([]Policy(nil), cfg.Replicas...)
			q := p
			q.Cache = 0
			c.Replicas[i] = q
			out = append(out, sim.MustJSON(c))
		}
		if p.ProofType == "parallel" {
			c := cfg
			c.Replicas = append([]Policy(nil), cfg.Replicas...)
			q := p
			q.ProofType = "serial"
			c.Replicas[i] = q
			out = append(out, sim.MustJSON(c))
		}
	}
	if len(cfg.RefRestart) > 0 {
		c := cfg
		c.RefRestart = cfg.RefRestart[:len(cfg.RefRestart)-1]
		out = append(out, sim.MustJSON(c))
	}
	if cfg.Chains > 2 {
		c := cfg
		c.Chains = 2
		out = append(out, sim.MustJSON(c))
	}
	if cfg.Services > 1 {
		c := cfg
		c.Services = 1
		out = append(out, sim.MustJSON(c))
	}
	if cfg.World.Admins > 1 {
		c := cfg
		c.World.Admins--
		if c.World.Normal >= c.World.Admins {
			c.World.Normal = c.World.Admins - 1
		}
		out = append(out, sim.MustJSON(c))
	}
	if cfg.World.Normal > 0 {
		c := cfg
		c.World.Normal--
		out = append(out, sim.MustJSON(c))
	}
	if cfg.World.Audit {
		c := cfg
		c.World.Audit = false
		out = append(out, sim.MustJSON(c))
	}
	return out
}

func SimplifyStep(raw json.RawMessage) []json.RawMessage {
	var s CStep
	if json.Unmarshal(raw, &s) != nil {
		return nil
	}
	var out []json.RawMessage
	if s.Op == "ibtp" {
		if s.Idx != "next" && s.Idx != "" {
			c := s
			c.Idx = "next"
			out = append(out, sim.MustJSON(c))
		}
		if s.Proof != "" {
			c := s
			c.Proof = ""
			out = append(out, sim.MustJSON(c))
		}
		if s.Sender != "" {
			c := s
			c.Sender = ""
			out = append(out, sim.MustJSON(c))
		}
		if s.Pair != 0 {
			c := s
			c.Pair = 0
			out = append(out, sim.MustJSON(c))
		}
	}
	if s.Op == "transfer" && s.Amt != "small" {
		c := s
		c.Amt = "small"
		out = append(out, sim.MustJSON(c))
	}
	return out
}

func stepString(s CStep) string {
	b, _ := json.Marshal(s)
	return string(b)
}

var _ = fmt.Sprint
