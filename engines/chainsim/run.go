package chainsim

import (
	"bytes"
	"crypto/sha256"
	"encoding/hex"
	"encoding/json"
	"fmt"
	"github.com/ethereum/go-ethereum/common"
	"math/big"
	"os"
	"runtime"
	"strings"

	"github.com/meshplus/bitxhub-kit/types"
	"time"

	"github.com/meshplus/bitxhub-core/governance"
	"github.com/meshplus/bitxhub-model/constant"
	"github.com/meshplus/bitxhub-model/pb"
	"github.com/meshplus/bitxhub/verif/sim"
)

const happyRule = "0x00000000000000000000000000000000000000a2"

type mService struct {
	chain   *mChain
	id      string
	ordered bool
	late    bool // not registered by the prologue
}

func (s *mService) full(bxh uint64) string { return fullServiceID(bxh, s.chain.id, s.id) }

type mChain struct {
	id        string
	admin     *Key
	services  []*mService
	rule      string // happy | bit | fabsim: the master rule (observed after every block when rule operations are generated)
	ruleAt    uint64 // height of the last block in which the observed master rule changed
	swapped   bool   // the admin the chain was registered with has been replaced (adminswap)
	loggedOut bool   // the appchain's logout was approved (observed status forbidden): no rule is bound to it any more
}

type txMeta struct {
	step                   int
	kind                   string // transfer | ibtp | gov | vote | call | setup | raw
	ibtp                   *pb.IBTP
	sender                 *Key
	proofOK                bool // harness-side judgement: proof hashes to ibtp.Proof and satisfies the bound rule
	note                   string
	local                  bool
	call                   *methodInfo
	callArgs               string
	target                 string         // governance: object or proposal id the transaction is about
	judge                  *mChain        // IBTP: the chain whose master rule judges the proof
	eth                    pb.Transaction // an Ethereum-format transaction: the block carries this instead of the placeholder
	ethLabel               string         // key label of its sender
	kvKey, kvVal, kvMethod string         // storage contract: record, value and method of the invocation
}

// blockTx is what the block carries at a position: the transaction itself, or the Ethereum-format one it stands for.
func blockTx(tx *pb.BxhTransaction, m *txMeta) pb.Transaction {
	if m != nil && m.eth != nil {
		return m.eth
	}
	return tx
}

type pairT struct{ src, dst *mService }

type histEntry struct {
	txs   []*pb.BxhTransaction
	metas []*txMeta
	ref   *blockResult
}

type scn struct {
	prop                            string
	res                             *sim.Result
	cfg                             CConfig
	reps                            []*replica
	twin                            *replica
	b                               *txBuilder
	chains                          []*mChain
	pairs                           []pairT
	users                           []*Key
	poor                            []*Key
	pend                            []*pb.BxhTransaction
	pendM                           []*txMeta
	height                          uint64 // height of the last executed block
	blockNo                         int    // number of workload blocks executed (policy restart index)
	ibtp                            *ibtpModel
	grp                             *groupModel
	gov                             *govModel
	bal                             *balModel
	fatal                           bool
	fabsimProofs                    int
	methods                         []methodInfo
	proposals                       []string
	step                            int
	inSetup                         bool
	prevNeutral, prevEv, curNeutral *pb.CommitEvent   // C09/C12: the previous block (real and with one transaction replaced)
	adminSeq                        int               // role macros issued
	grantSeen                       map[string]bool   // administrators already accounted for a grant
	ruleProposalChain               map[string]string // proposal id of a master-rule update -> appchain id
	bitAddr                         string            // address of the deployed WASM bit rule ("" if not deployed)
	kvAddr                          *types.Address    // address of the deployed WASM storage contract (nil if not deployed)
	kvSeq                           int
	funded                          map[string]bool   // accounts that exist with a balance (the API reader only polls those)
	evmStore                        *common.Address   // address of the EVM storage contract, once a deployment was issued
	outsiderProposals               []string          // ids of the proposals the outsider's own successful calls returned
	setupOccupancy                  map[string]string // role manager's "occupy-account-<addr>" records as the prologue left them (state key -> value)
	relaySet                        map[int]bool      // validator indexes in the trust root currently stored for the other BitXHub (observed)
	relayN                          int
	icCum                           uint64                // C09: interchain transactions counted over all blocks (incl. the prologue)
	kvModel                         map[string]string     // records of the storage contract: value of the last successful write
	auditSponsor                    map[string]*Key       // proposal id -> account that submitted the audit operation
	hist                            map[uint64]*histEntry // per height: what the reference computed (kept only when a replica lags, Policy.Burst)
	prevRefDump                     [][2]string           // state store of the reference replica after the previous block (only kept when there are other replicas)
}

func (s *scn) vio(prop, oracle, discr, f string, a ...any) {
	if prop != s.prop {
		return
	}
	s.res.Violate(prop, oracle, s.step, discr, f, a...)
}

func (s *scn) logf(f string, a ...any) { s.res.Log.Logf(f, a...) }

func (s *scn) actor(i int) *Key {
	// actors: users, chain admins, governance admins
	all := append([]*Key(nil), s.users...)
	for _, c := range s.chains {
		all = append(all, c.admin)
	}
	for i := 0; i < s.cfg.World.Admins; i++ {
		all = append(all, s.cfg.World.adminKey(i))
	}
	if i < 0 {
		i = -i
	}
	return all[i%len(all)]
}

func Execute(prop string, p *sim.Plan, keep bool) (res *sim.Result) {
	res = sim.NewResult()
	res.Log.Keep = keep
	cfg, err := unmarshalCfg(p.Config)
	if err != nil {
		res.Aborted = "bad config: " + err.Error()
		return res
	}
	s := &scn{prop: prop, res: res, cfg: cfg, b: newTxBuilder()}
	defer s.cleanup()
	defer func() {
		if e := recover(); e != nil {
			// a panic on the driver's own goroutine: harness trouble unless it came out of the code under test
			res.Aborted = fmt.Sprintf("driver panic: %v at %s", e, panicSite())
		}
	}()
	for i, pol := range cfg.Replicas {
		r, err := newReplica(i, cfg.World, pol)
		if err != nil {
			res.Aborted = "replica: " + err.Error()
			return res
		}
		s.reps = append(s.reps, r)
	}
	if cfg.Twin {
		r, err := newReplica(100, cfg.World, Policy{ProofType: "serial"})
		if err != nil {
			res.Aborted = "twin: " + err.Error()
			return res
		}
		s.twin = r
	}
	s.height = s.reps[0].height
	s.ibtp = newIbtpModel(s)
	s.grp = newGroupModel(s)
	s.gov = newGovModel(s)
	s.bal = newBalModel(s)
	s.setup()
	s.setupOccupancy = map[string]string{}
	if len(s.reps) > 0 && res.Aborted == "" {
		pre := string(constant.RoleContractAddr.Address().Bytes()) + "occupy-account-"
		for _, kv := range s.reps[0].stateDump() {
			if strings.HasPrefix(kv[0], pre) {
				s.setupOccupancy[kv[0]] = kv[1]
			}
		}
	}
	if s.fatal || res.Aborted != "" {
		return s.finish()
	}
	for i, raw := range p.Steps {
		var st CStep
		if json.Unmarshal(raw, &st) != nil {
			continue
		}
		s.step = i
		res.Steps++
		s.apply(st)
		if s.fatal || res.Aborted != "" {
			break
		}
	}
	if !s.fatal && res.Aborted == "" {
		s.flush()
	}
	for _, r := range s.reps {
		if !s.fatal && res.Aborted == "" {
			s.drain(r)
		}
	}
	return s.finish()
}

func (s *scn) finish() *sim.Result {
	r := s.res
	r.Nontrivial = r.Counters["blocks"] >= 3 && r.Counters["txs"] >= 5
	r.Shape = r.Log.Digest()
	return r
}

func (s *scn) cleanup() {
	for _, r := range s.reps {
		r.destroy()
	}
	if s.twin != nil {
		s.twin.destroy()
	}
}

func (s *scn) add(tx *pb.BxhTransaction, m *txMeta) {
	m.step = s.step
	s.pend = append(s.pend, tx)
	s.pendM = append(s.pendM, m)
}

// setup: fund actors, register appchains and services through the real governance flow.
func (s *scn) setup() {
	s.inSetup = true
	defer func() { s.inSetup = false }()
	w := s.cfg.World
	a0 := w.adminKey(0)
	for i := 0; i < s.cfg.Users; i++ {
		s.users = append(s.users, keyFor(fmt.Sprintf("user%d", i)))
	}
	names := []string{"chainA", "chainB", "chainC"}
	for i := 0; i < s.cfg.Chains; i++ {
		c := &mChain{id: names[i], admin: keyFor("chainadmin-" + names[i])}
		s.chains = append(s.chains, c)
	}
	fund := "1000000000000000000000000"
	for _, u := range s.users {
		s.add(s.b.transfer(a0, u.Addr, fund), &txMeta{kind: "setup", sender: a0})
	}
	for _, c := range s.chains {
		s.add(s.b.transfer(a0, c.admin.Addr, fund), &txMeta{kind: "setup", sender: a0})
	}
	for i := 0; i < 3; i++ {
		p := keyFor(fmt.Sprintf("poor%d", i))
		s.poor = append(s.poor, p)
		s.add(s.b.transfer(a0, p.Addr, "5000"), &txMeta{kind: "setup", sender: a0})
	}
	s.flush()
	s.funded = map[string]bool{}
	for _, u := range s.users {
		s.funded[u.Addr.String()] = true
	}
	for _, c := range s.chains {
		s.funded[c.admin.Addr.String()] = true
	}
	for _, p := range s.poor {
		s.funded[p.Addr.String()] = true
	}
	for i := 0; i < w.Admins; i++ {
		s.funded[w.adminKey(i).Addr.String()] = true
	}
	// rules
	var bitAddr string
	for i, c := range s.chains {
		c.rule = "happy"
		if i < len(s.cfg.Rules) && s.cfg.Rules[i] != "" {
			c.rule = s.cfg.Rules[i]
		}
		if (c.rule == "bit" || s.cfg.RuleOps) && bitAddr == "" {
			a := s.deployBitRule()
			if a == nil {
				return
			}
			bitAddr = a.String()
			s.bitAddr = bitAddr
		}
	}
	if s.cfg.KV && !s.deployKV() {
		return
	}
	if s.cfg.Rejected && !s.rejectedRegistrations() {
		return
	}
	// register appchains
	var pids []string
	for _, c := range s.chains {
		rule, typ, broker, trust := happyRule, "ETH", "broker", []byte(nil)
		switch c.rule {
		case "bit":
			rule = bitAddr
		case "fabsim":
			rule, typ = "0x00000000000000000000000000000000000000a1", "Fabric V1.4.3"
			broker = `{"channel_id":"1","chaincode_id":"2","broker_version":"3"}`
			trust = []byte("not a certificate")
		}
		s.add(s.b.bvm(c.admin, constant.AppchainMgrContractAddr, "RegisterAppchain", pb.String(c.id), pb.String("name-"+c.id), pb.Bytes(nil), pb.String(typ),
			pb.Bytes(trust), pb.String(broker), pb.String("desc"), pb.String(rule), pb.String("url"), pb.String(c.admin.Addr.String()), pb.String("reason")),
			&txMeta{kind: "setup", sender: c.admin})
	}
	if s.cfg.Relay > 0 {
		ra := keyFor("relay-admin")
		s.add(s.b.transfer(a0, ra.Addr, fund), &txMeta{kind: "setup", sender: a0})
		s.add(s.b.bvm(ra, constant.AppchainMgrContractAddr, "RegisterAppchain", pb.String(relayHubID), pb.String("name-relay"), pb.Bytes(nil), pb.String("relaychain"),
			pb.Bytes(relayTrustRoot(s.cfg.Relay)), pb.String("broker"), pb.String("desc"), pb.String(happyRule), pb.String("url"), pb.String(ra.Addr.String()), pb.String("reason")),
			&txMeta{kind: "setup", sender: ra})
	}
	rs := s.flush()
	if rs == nil {
		return
	}
	for i, rc := range rs.Receipts {
		if s.cfg.Relay > 0 && i == len(s.chains) {
			continue // the funding transfer of the relay admin
		}
		g := &governance.GovernanceResult{}
		if rc.Status != pb.Receipt_SUCCESS || json.Unmarshal(rc.Ret, g) != nil {
			s.res.Aborted = fmt.Sprintf("setup: RegisterAppchain failed: %s", rc.Ret)
			return
		}
		pids = append(pids, g.ProposalID)
	}
	if !s.voteAll(pids) {
		return
	}
	pids = nil
	for _, c := range s.chains {
		for j := 0; j < s.cfg.Services; j++ {
			sv := &mService{chain: c, id: fmt.Sprintf("s%d", j+1), ordered: true}
			if s.cfg.Unordered && j == s.cfg.Services-1 && j > 0 {
				sv.ordered = false
			}
			c.services = append(c.services, sv)
			ord := uint64(0)
			if sv.ordered {
				ord = 1
			}
			s.add(s.b.bvm(c.admin, constant.ServiceMgrContractAddr, "RegisterService", pb.String(c.id), pb.String(sv.id), pb.String("nm-"+c.id+sv.id), pb.String("CallContract"),
				pb.String("intro"), pb.Uint64(ord), pb.String(""), pb.String("details"), pb.String("reason")), &txMeta{kind: "setup", sender: c.admin})
		}
	}
	rs = s.flush()
	if rs == nil {
		return
	}
	for _, rc := range rs.Receipts {
		g := &governance.GovernanceResult{}
		if rc.Status != pb.Receipt_SUCCESS || json.Unmarshal(rc.Ret, g) != nil {
			s.res.Aborted = fmt.Sprintf("setup: RegisterService failed: %s", rc.Ret)
			return
		}
		pids = append(pids, g.ProposalID)
	}
	if !s.voteAll(pids) {
		return
	}
	if s.cfg.Late {
		for _, c := range s.chains {
			c.services = append(c.services, &mService{chain: c, id: "sl", ordered: true, late: true})
		}
	}
	for _, c := range s.chains {
		for _, sv := range c.services {
			for _, d := range s.chains {
				if d == c {
					continue
				}
				for _, dv := range d.services {
					s.pairs = append(s.pairs, pairT{sv, dv})
				}
			}
		}
	}
	if s.cfg.SamePairs {
		for _, c := range s.chains {
			for _, sv := range c.services {
				for _, dv := range c.services {
					s.pairs = append(s.pairs, pairT{sv, dv})
				}
			}
		}
	}
	if s.cfg.AuditOps {
		s.setupAudit()
	}
	s.blockNo = 0
}

// voteAll approves the proposals with as many admins as the shipped majority rule needs.
// rejectedRegistrations: before the chains are registered by their admins, the account that later plays the outsider
// applied for every one of those chain ids itself and was turned down by the administrators. Nothing of those
// applications may survive: the ids are taken by their real owners afterwards.
func (s *scn) rejectedRegistrations() bool {
	o := s.users[len(s.users)-1]
	w := s.cfg.World
	for _, c := range s.chains {
		s.add(s.b.bvm(o, constant.AppchainMgrContractAddr, "RegisterAppchain", pb.String(c.id), pb.String("name-"+c.id), pb.Bytes(nil), pb.String("ETH"),
			pb.Bytes(nil), pb.String("broker"), pb.String("desc"), pb.String(happyRule), pb.String("url"), pb.String(o.Addr.String()), pb.String("reason")),
			&txMeta{kind: "setup", sender: o})
		rs := s.flush()
		if rs == nil || len(rs.Receipts) == 0 {
			return false
		}
		g := &governance.GovernanceResult{}
		rc := rs.Receipts[len(rs.Receipts)-1]
		if rc.Status != pb.Receipt_SUCCESS || json.Unmarshal(rc.Ret, g) != nil || g.ProposalID == "" {
			s.res.Aborted = fmt.Sprintf("setup: first RegisterAppchain failed: %s", rc.Ret)
			return false
		}
		// every administrator rejects; votes after the conclusion are refused, which is fine
		for i := 0; i < w.Admins; i++ {
			k := w.adminKey(i)
			s.add(s.b.bvm(k, constant.GovernanceContractAddr, "Vote", pb.String(g.ProposalID), pb.String("reject"), pb.String("r")), &txMeta{kind: "setup", sender: k})
		}
		if s.flush() == nil {
			return false
		}
		s.res.Count("setup_rejected_registrations")
	}
	return true
}

func (s *scn) voteAll(pids []string) bool {
	w := s.cfg.World
	need := w.Admins/2 + 1
	if w.Strategy != "" {
		need = w.Admins
		for a := 1; a <= w.Admins; a++ {
			if ok, err := evalStrategy(w.Strategy, uint64(a), 0, uint64(w.Admins)); err == nil && ok {
				need = a
				break
			}
		}
	}
	for _, pid := range pids {
		for i := 0; i < need; i++ {
			k := w.adminKey(i)
			s.add(s.b.bvm(k, constant.GovernanceContractAddr, "Vote", pb.String(pid), pb.String("approve"), pb.String("r")), &txMeta{kind: "setup", sender: k})
		}
	}
	rs := s.flush()
	if rs == nil {
		return false
	}
	for _, rc := range rs.Receipts {
		if rc.Status != pb.Receipt_SUCCESS {
			s.res.Aborted = fmt.Sprintf("setup: vote failed: %s", rc.Ret)
			return false
		}
	}
	return true
}

func (s *scn) apply(st CStep) {
	switch st.Op {
	case "cut":
		s.flush()
	case "transfer":
		from, to := s.actor(st.A), s.actor(st.B+1)
		if st.Sender == "poor" {
			from = s.poor[st.N%len(s.poor)]
		}
		amt := s.amount(from, st.Amt)
		tx := s.b.transfer(from, to.Addr, amt)
		if st.BadSig {
			tx.Signature = append([]byte(nil), tx.Signature...)
			if len(tx.Signature) > 10 {
				tx.Signature[10] ^= 0x55
			}
			// the hash covers the signature
			tx.TransactionHash = tx.Hash()
		}
		s.add(tx, &txMeta{kind: "transfer", sender: from, local: st.Local, note: st.Amt})
	case "ibtp", "entry":
		s.applyIBTP(st)
	case "relay":
		s.applyRelay(st)
	case "gopen", "gchild", "grecv":
		s.applyGroup(st)
	case "relaytrust":
		s.applyRelayTrust(st)
	case "xhub":
		s.applyXhub(st)
	case "audop":
		s.applyAudit(st)
	case "auditcycle":
		s.applyAuditCycle(st)
	case "svccycle":
		s.applySvcCycle(st)
	case "ghostburst":
		// several requests with the same timeout to destinations that do not exist (accepted as begin-failed) in one
		// block, and their failure receipts together in a later block
		k := 2 + st.N%2
		s.flush()
		for j := 0; j < k; j++ {
			s.applyIBTP(CStep{Op: "ibtp", Kind: "req", Pair: st.Pair + j*st.A, Idx: "next", T: st.T, Ghost: true})
		}
		s.flush()
		if st.N%3 == 0 {
			s.flush()
		}
		for j := 0; j < k; j++ {
			s.applyIBTP(CStep{Op: "ibtp", Kind: "fail", Pair: st.Pair + j*st.A, Idx: "next", Ghost: true})
		}
		s.flush()
		s.res.Count("ghost_burst")
	case "ruleop":
		s.applyRuleOp(st)
	case "chainlogout":
		s.applyChainLogout(st)
	case "eth":
		s.applyEth(st)
	case "kv":
		s.applyKV(st)
	case "adminreg":
		s.applyAdminReg(st)
	default:
		s.applyExtra(st)
	}
	if len(s.pend) >= 12 {
		s.flush()
	}
}

// amount resolves an amount class against the sender's balance as currently known to the model.
func (s *scn) amount(from *Key, class string) string {
	bal := s.bal.get(from.Addr.String())
	switch class {
	case "zero":
		return "0"
	case "one":
		return "1"
	case "exact":
		return bal.String()
	case "nearly":
		// leaves the sender with less than the fee of this very transfer (about half of it): the fee stage takes
		// "the sender's whole remaining balance"
		left := new(big.Int).SetUint64(s.cfg.World.GasPrice * 10000)
		if left.Sign() == 0 || left.Cmp(bal) >= 0 {
			left = big.NewInt(1)
		}
		if bal.Cmp(left) <= 0 {
			return bal.String()
		}
		return new(big.Int).Sub(bal, left).String()
	case "over":
		return new(big.Int).Add(bal, big.NewInt(1)).String()
	case "huge":
		return "115792089237316195423570985008687907853269984665640564039457584007913129639936"
	case "junk":
		return "12x"
	case "neg":
		return "-1000"
	case "neghuge":
		return "-100000000000000000000000000000000"
	default:
		return "1000"
	}
}

func (s *scn) applyIBTP(st CStep) {
	if len(s.pairs) == 0 {
		return
	}
	pairs := s.pairs
	if s.cfg.SplitGroups {
		pairs = nil
		for _, q := range s.pairs {
			if q.src.chain != s.chains[0] {
				pairs = append(pairs, q)
			}
		}
	}
	p := pairs[((st.Pair%len(pairs))+len(pairs))%len(pairs)]
	bxh := s.cfg.World.ChainID
	from, to := p.src.full(bxh), p.dst.full(bxh)
	if st.Ghost {
		to = fullServiceID(bxh, p.dst.chain.id, "ghost")
	}
	ib := &pb.IBTP{From: from, To: to, TimeoutHeight: st.T}
	var sender *Key
	pm := s.ibtp.pair(from, to)
	switch st.Kind {
	case "req", "":
		ib.Type = pb.IBTP_INTERCHAIN
		ib.Index = s.ibtp.pickIndex(pm.reqSubmitted(), st.Idx)
		sender = p.src.chain.admin
		if st.Notice > 0 {
			// a request between two services of THIS hub dressed up as the notice of another BitXHub (only such a notice
			// may skip the request index check): it is an ordinary request and is judged by its index like one
			bp := &pb.BxhProof{TxStatus: []pb.TransactionStatus{pb.TransactionStatus_BEGIN_FAILURE, pb.TransactionStatus_BEGIN_ROLLBACK}[(st.Notice-1)%2]}
			ib.Extra, _ = bp.Marshal()
			ib.Index = s.ibtp.pickIndex(pm.rcptSubmitted(), st.Idx)
			s.res.Count("local_request_dressed_as_hub_notice")
		}
	default:
		switch st.Kind {
		case "ok":
			ib.Type = pb.IBTP_RECEIPT_SUCCESS
		case "fail":
			ib.Type = pb.IBTP_RECEIPT_FAILURE
		default:
			ib.Type = pb.IBTP_RECEIPT_ROLLBACK
		}
		ib.Index = s.ibtp.pickIndex(pm.rcptSubmitted(), st.Idx)
		sender = p.dst.chain.admin
		if ib.Type == pb.IBTP_RECEIPT_ROLLBACK {
			sender = p.src.chain.admin
		}
		if st.GJ {
			// an unusual but well-formed input: the receipt of a one-to-one request carries a group descriptor
			ib.Group = &pb.StringUint64Map{Keys: []string{to}, Vals: []uint64{ib.Index}}
		}
	}
	switch st.Sender {
	case "other":
		sender = s.chains[(indexOfChain(s.chains, p.src.chain)+1)%len(s.chains)].admin
	case "user":
		sender = s.users[0]
	case "poor":
		sender = s.poor[st.N%len(s.poor)]
	}
	// the chain whose rule judges this IBTP: the source chain for requests, the destination chain for receipts
	judge := p.src.chain
	if ib.Category() == pb.IBTP_RESPONSE {
		judge = p.dst.chain
	}
	proof := []byte(fmt.Sprintf("1proof-%d", s.step)) // first byte '1' = 0x31: accepted by the bit rule
	if st.Proof == "reject" {
		proof = []byte(fmt.Sprintf("0proof-%d", s.step)) // '0' = 0x30: refused by the bit rule without an error
	}
	if judge.rule == "fabsim" && st.Op != "entry" {
		// bitxhub-core's FabricSim validator panics on malformed proofs and every panic leaks one
		// instance of its pool of 10 (known finding C03/wedged); keep a run below that so that the
		// rest of the run is still explored. The twin executes every block twice.
		s.fabsimProofs++
		if s.fabsimProofs > 4 && !s.cfg.NoFabsimCap {
			s.res.Count("skipped_fabsim_proofs_above_cap")
			return
		}
	}
	m := &txMeta{kind: "ibtp", ibtp: ib, sender: sender, proofOK: ruleAccepts(judge.rule, proof), note: st.Kind + "/" + st.Idx, judge: judge}
	if !m.proofOK {
		m.note += "/proof-refused-by-" + judge.rule + "-rule"
	}
	if st.Notice > 0 && st.Kind == "req" {
		m.note += "/dressed-as-notice"
	}
	if st.Op == "entry" {
		// plain contract invocation by an external account: no proof is ever checked on this path
		role := s.roleKey(st.Role, p.src.chain)
		data, _ := ib.Marshal()
		m.kind, m.sender, m.note = "entry", role, st.M+"/"+st.Role
		s.add(s.b.bvm(role, constant.InterchainContractAddr, st.M, pb.Bytes(data)), m)
		return
	}
	var tx *pb.BxhTransaction
	switch st.Proof {
	case "absent":
		tx = s.b.ibtpTx(sender, ib, nil, false)
		m.proofOK = false
		m.note += "/proof-absent"
	case "badhash":
		tx = s.b.ibtpTx(sender, ib, proof, true)
		tx.Extra = []byte("another proof")
		tx.Signature = nil
		_ = tx.Sign(sender.Priv)
		tx.TransactionHash = tx.Hash()
		m.proofOK = false
		m.note += "/proof-hash-mismatch"
	default:
		tx = s.b.ibtpTx(sender, ib, proof, true)
	}
	if ib.Category() == pb.IBTP_REQUEST {
		pm.noteReqSubmitted(ib.Index)
	} else {
		pm.noteRcptSubmitted(ib.Index)
	}
	s.add(tx, m)
}

func indexOfChain(cs []*mChain, c *mChain) int {
	for i, x := range cs {
		if x == c {
			return i
		}
	}
	return 0
}

// flush packs the pending transactions into the next block and executes it on every replica.
func (s *scn) flush() *blockResult {
	if s.fatal || s.res.Aborted != "" {
		return nil
	}
	h := s.height + 1
	blk := &pb.Block{BlockHeader: &pb.BlockHeader{Version: []byte("1.0.0"), Number: h, Timestamp: int64(h) * 1_000_000_000}, Transactions: &pb.Transactions{}}
	var ll []bool
	for i, tx := range s.pend {
		blk.Transactions.Transactions = append(blk.Transactions.Transactions, blockTx(tx, s.pendM[i]))
		ll = append(ll, s.pendM[i].local)
	}
	if s.prop == "C09" && !s.inSetup && sim.NewRand(uint64(h)*0x9fb21c651e98df25+uint64(len(s.pend))).Chance(0.2) {
		// a block that arrives with a header some other node filled in on another fork (a peer serving block sync that had
		// executed a competing block below): parent hash and roots that are not this node's
		fh := func(tag string) *types.Hash {
			d := sha256.Sum256([]byte(fmt.Sprintf("%s-%d", tag, h)))
			return types.NewHash(d[:])
		}
		blk.BlockHeader.ParentHash, blk.BlockHeader.StateRoot = fh("foreign-parent"), fh("foreign-state")
		blk.BlockHeader.TxRoot, blk.BlockHeader.ReceiptRoot = fh("foreign-txroot"), fh("foreign-receiptroot")
		s.res.Count("fault_block_delivered_with_a_foreign_header")
	}
	ev := &pb.CommitEvent{Block: blk, LocalList: ll}
	txs, metas := s.pend, s.pendM
	s.pend, s.pendM = nil, nil
	s.logf("block %d txs=%d", h, len(txs))
	var results []*blockResult
	if !s.inSetup {
		for _, at := range s.cfg.RefRestart {
			if at == s.blockNo {
				if err := s.reps[0].restart(); err != nil {
					s.vio("C01", "restart-failed", "", "the node cannot reopen its ledger after a clean stop at height %d: %v", s.reps[0].height, err)
					s.res.Aborted = "restart failed: " + err.Error()
					return nil
				}
				s.res.Count("fault_node_restart")
			}
		}
	}
	for _, r := range s.reps {
		if !s.inSetup {
			for _, at := range r.pol.RestartAt {
				if at == s.blockNo {
					if !s.drain(r) {
						return nil
					}
					if err := r.restart(); err != nil {
						s.vio("C01", "restart-failed", "", "replica %d cannot reopen its ledger after a clean stop at height %d: %v", r.id, r.height, err)
						s.res.Aborted = "restart failed: " + err.Error()
						return nil
					}
					s.res.Count("fault_replica_restart")
				}
			}
		}
		var br *blockResult
		var err error
		ev := ev
		if r.pol.Synced && !s.inSetup && r.id > 0 && len(results) > 0 && results[0] != nil && results[0].Block != nil {
			ev = syncedCommit(results[0].Block, ev.LocalList)
			s.res.Count("fault_block_delivered_as_synced")
		}
		if r.pol.Burst > 1 && !s.inSetup && r.id > 0 {
			r.backlog = append(r.backlog, ev)
			results = append(results, nil)
			continue
		}
		if r.pol.Compete > 0 && !s.inSetup && len(txs) > 0 && sim.NewRand(uint64(h)*0x2545f4914f6cdd1d+uint64(r.id)*31+uint64(len(txs))).Chance(float64(r.pol.Compete)/1000) {
			// the head is replaced: a competing block of this height is executed first, then the real one arrives
			if _, err := r.execute(competingBlock(ev, int(h)%len(txs)), 12*time.Second); err != nil {
				s.res.Aborted = "competing block: " + err.Error()
				return nil
			}
			s.res.Count("fault_head_block_replaced")
			if sub := os.Getenv("VERIF_DBG_KEY"); sub != "" {
				for _, kv := range r.stateDump() {
					if strings.Contains(kv[0], sub) {
						fmt.Fprintf(os.Stderr, "DBG replica %d after competing block %d: %q = %q\n", r.id, h, kv[0], kv[1])
					}
				}
			}
			s.logf("  replica %d executed a competing block %d (without tx %d) first", r.id, h, int(h)%len(txs))
			if r.id == 0 {
				s.pokeViews() // API clients query the node at any time, also while the competing block is its head
			}
		}
		if r.pol.Reader && !s.inSetup && len(results) > 0 {
			// keys and accounts the block changed, as seen on the reference replica
			changed := sim.DiffDumps(s.prevRefDump, s.reps[0].stateDump())
			br, err = r.executeWithReader(ev, 12*time.Second, func() {
				for _, k := range changed {
					switch {
					case strings.HasPrefix(k, "account-"):
						if a := types.NewAddressByStr(k[len("account-"):]); a != nil {
							r.lg.GetBalance(a)
							r.lg.GetNonce(a)
						}
					case strings.HasPrefix(k, "code-"):
						if a := types.NewAddressByStr(k[len("code-"):]); a != nil {
							r.lg.GetCode(a)
						}
					case len(k) > 20:
						r.lg.GetState(types.NewAddress([]byte(k[:20])), []byte(k[20:]))
					}
				}
				s.res.Add("fault_reads_between_flush_and_commit", int64(len(changed)))
			})
			s.res.Count("fault_slow_disk_with_reader")
		} else if r.pol.ApiReader > 0 && !s.inSetup {
			ar := &apiReader{rnd: sim.NewRand(uint64(h)*0x9e3779b97f4a7c15 + uint64(r.id)*7919 + uint64(len(txs))), permil: r.pol.ApiReader}
			seen := map[string]bool{}
			for _, tx := range txs {
				// the accounts this block moves value between, as an API client would poll them
				for _, a := range []*types.Address{tx.From, tx.To} {
					if a != nil && !seen[a.String()] && s.funded[a.String()] {
						seen[a.String()] = true
						ar.addrs = append(ar.addrs, a)
					}
				}
			}
			if s.kvAddr != nil {
				ar.contract, ar.keys = s.kvAddr, []string{"rec0", "rec1", "rec2"}
			}
			br, err = r.executeWithApiReader(ev, 12*time.Second, ar)
			s.res.Add("fault_api_reader_landings", int64(len(ar.landed)))
			for _, l := range ar.landed {
				s.res.Count("fault_api_reader_in_" + strings.Split(l, "#")[0])
				s.res.State("api-reader", l)
			}
			if len(ar.landed) > 0 {
				s.logf("  api reader on replica %d ran at %v", r.id, ar.landed)
			}
		} else {
			br, err = r.execute(ev, 12*time.Second)
		}
		if err != nil {
			if err == errWedged {
				discr := ""
				if s.fabsimProofs >= 10 {
					discr = "after-10-or-more-malformed-fabsim-proofs"
				}
				s.vio("C08", "wedged", discr, "block %d (%d txs) produced no executed event on replica %d", h, len(txs), r.id)
				s.vio("C03", "wedged", discr, "block %d (%d txs) produced no executed event on replica %d: proof verification blocks forever", h, len(txs), r.id)
				s.fatal = true
				if len(s.res.Violations) == 0 {
					s.res.Aborted = "replica wedged" // owned by C08/C03; an aborted run for every other property
				}
			} else {
				s.res.Aborted = "execute: " + err.Error()
			}
			return nil
		}
		results = append(results, br)
		if sub := os.Getenv("VERIF_DBG_KEY"); sub != "" {
			for _, kv := range r.stateDump() {
				if strings.Contains(kv[0], sub) {
					fmt.Fprintf(os.Stderr, "DBG replica %d after block %d: %q = %q\n", r.id, h, kv[0], kv[1])
				}
			}
		}
	}
	ref := results[0]
	s.height = h
	if !s.inSetup {
		s.blockNo++
	}
	s.res.Count("blocks")
	s.res.Add("txs", int64(len(txs)))
	for i, rc := range ref.Receipts {
		st := "ok"
		if rc.Status != pb.Receipt_SUCCESS {
			st = "FAILED"
			s.res.Count("txs_failed")
		}
		ret := string(rc.Ret)
		if len(ret) > 60 {
			ret = ret[:60]
		}
		s.logf("  tx%d %s %s %s %q", i, metas[i].kind, metas[i].note, st, ret)
		s.res.State(metas[i].kind, metas[i].note, st, failClass(ret))
	}
	s.logf("  hash=%s root=%s meta=%s", ref.Hash[:12], ref.Header.StateRoot.String()[:12], metaString(ref.Meta))
	// C08: one receipt per transaction, in order, next height
	if len(ref.Receipts) != len(txs) || ref.Height != h {
		s.vio("C08", "receipts", "", "block %d: %d receipts for %d transactions, executed height %d", h, len(ref.Receipts), len(txs), ref.Height)
	}
	for i := range ref.Receipts {
		if i < len(txs) && ref.Receipts[i].TxHash.String() != txs[i].GetHash().String() {
			s.vio("C08", "receipt-order", "", "block %d: receipt %d belongs to another transaction", h, i)
		}
	}
	// C01: every replica computed bit-identical results
	s.compareReplicas(h, results)
	if len(s.reps) > 1 {
		s.prevRefDump = s.reps[0].stateDump()
	}
	for _, r := range s.reps {
		if r.pol.Burst > 1 && !s.inSetup && r.id > 0 {
			if s.hist == nil {
				s.hist = map[uint64]*histEntry{}
			}
			s.hist[h] = &histEntry{txs: txs, metas: metas, ref: ref}
			if len(r.backlog) >= r.pol.Burst {
				if !s.drain(r) {
					return nil
				}
			}
		}
	}
	if s.cfg.RuleOps && !s.inSetup {
		s.observeMasterRules(h) // before the verdicts: proofs judged in a block that changed the master rule get none
	}
	// per-block oracles on the reference replica
	s.bal.afterBlock(h, txs, metas, ref)
	s.ibtp.afterBlock(h, txs, metas, ref)
	s.grp.afterBlock(h, txs, metas, ref)
	s.afterBlockExtra(h, txs, metas, ref)
	s.kvAfterBlock(h, metas, ref)
	s.checkRouter(h, txs, ref)
	if s.cfg.Relay > 0 && !s.inSetup {
		s.observeRelaySet()
	}

	if s.prop == "C09" {
		if s.inSetup {
			s.icCum = s.reps[0].lg.GetChainMeta().InterchainTxCount
		} else {
			s.checkStoredChain(s.reps[0], h, "reference")
		}
	}
	if s.twin != nil {
		s.twinCheck(h, ev, txs, metas, ref)
	}
	if s.cfg.ViewWrites > 0 && !s.inSetup && len(txs) > 0 && sim.NewRand(uint64(h)*0xd1342543de82ef95+uint64(len(txs))).Chance(float64(s.cfg.ViewWrites)/1000) {
		s.viewWrites(h, txs, metas)
	}
	return ref
}

func failClass(ret string) string {
	// coarse class of a failure message for the abstract-state measure (first words, digits stripped)
	var b strings.Builder
	for _, c := range ret {
		if c >= '0' && c <= '9' {
			continue
		}
		b.WriteRune(c)
		if b.Len() > 24 {
			break
		}
	}
	return b.String()
}

func receiptBytes(rc *pb.Receipt) []byte {
	b, err := rc.Marshal()
	if err != nil {
		return []byte("marshal error: " + err.Error())
	}
	return b
}

func metaBytes(m *pb.InterchainMeta) []byte {
	if m == nil {
		return nil
	}
	b, err := m.Marshal()
	if err != nil {
		return []byte("marshal error: " + err.Error())
	}
	return b
}

func (s *scn) compareReplicas(h uint64, results []*blockResult) {
	if len(results) < 2 {
		return
	}
	refDump := s.reps[0].stateDump()
	for i := 1; i < len(results); i++ {
		if results[i] == nil {
			continue // a lagging replica (Policy.Burst): compared when it is handed its backlog
		}
		s.compareOne(h, results[0], results[i], i, refDump, nil)
		if len(s.res.Violations) > 0 {
			s.fatal = true
			return
		}
	}
}

// compareOne: C01 for one block and one replica. refDump == nil: the reference has moved on, the state stores are
// not compared for this height. skipRc: receipt positions not compared (see drain).
func (s *scn) compareOne(h uint64, ref, o *blockResult, i int, refDump [][2]string, skipRc map[int]bool) {
	where := fmt.Sprintf("block %d, replica %d (proof=%s cache=%d restarts=%v) vs replica 0", h, i, s.reps[i].pol.ProofType, s.reps[i].pol.Cache, s.reps[i].pol.RestartAt)
	if s.reps[i].pol.Burst > 1 {
		where = fmt.Sprintf("block %d, replica %d (proof=%s, handed %d blocks back to back) vs replica 0 (one block at a time)", h, i, s.reps[i].pol.ProofType, s.reps[i].pol.Burst)
	}
	switch {
	case o.Header.StateRoot.String() != ref.Header.StateRoot.String():
		vals := ""
		var d []string
		if refDump != nil {
			od := s.reps[i].stateDump()
			d = sim.DiffDumps(refDump, od)
			if len(d) <= 3 {
				for _, k := range d {
					vals += fmt.Sprintf(" [%s: %q vs %q]", trimKeys([]string{k})[0], dumpValue(refDump, k), dumpValue(od, k))
				}
			}
		}
		s.vio("C01", "diverged", "state-root", "%s: state roots differ (%s vs %s); differing state keys: %q%s", where, ref.Header.StateRoot.String()[:14], o.Header.StateRoot.String()[:14], trimKeys(d), vals)
	case o.Header.TxRoot.String() != ref.Header.TxRoot.String():
		s.vio("C01", "diverged", "tx-root", "%s: transaction roots differ", where)
	case o.Header.ReceiptRoot.String() != ref.Header.ReceiptRoot.String():
		s.vio("C01", "diverged", "receipt-root", "%s: receipt roots differ", where)
	case o.Header.TimeoutRoot.String() != ref.Header.TimeoutRoot.String():
		s.vio("C01", "diverged", "timeout-root", "%s: timeout roots differ", where)
	case o.Hash != ref.Hash:
		s.vio("C01", "diverged", "block-hash", "%s: block hashes differ (%s vs %s)", where, ref.Hash[:14], o.Hash[:14])
	}
	for j := range ref.Receipts {
		if skipRc[j] {
			continue
		}
		if j < len(o.Receipts) && !bytes.Equal(receiptBytes(ref.Receipts[j]), receiptBytes(o.Receipts[j])) {
			s.vio("C01", "diverged", "receipt", "%s: receipt %d differs: %q vs %q", where, j, ref.Receipts[j].Ret, o.Receipts[j].Ret)
			break
		}
	}
	if !bytes.Equal(metaBytes(ref.Meta), metaBytes(o.Meta)) {
		s.vio("C01", "diverged", "delivery-meta", "%s: per-block delivery metadata differs:\n  %s\n  %s", where, metaString(ref.Meta), metaString(o.Meta))
	}
	if refDump == nil {
		return
	}
	if od := s.reps[i].stateDump(); len(sim.DiffDumps(refDump, od)) > 0 {
		d := sim.DiffDumps(refDump, od)
		vals := ""
		if len(d) <= 3 {
			for _, k := range d {
				vals += fmt.Sprintf(" [%s: %q vs %q]", trimKeys([]string{k})[0], dumpValue(refDump, k), dumpValue(od, k))
			}
		}
		discr := "state-content"
		onlyEmpty := true
		for _, k := range d {
			a, b := dumpValue(refDump, k), dumpValue(od, k)
			if !((a == "<absent>" && b == "") || (a == "" && b == "<absent>")) || strings.HasPrefix(k, "account-") || strings.HasPrefix(k, "code-") {
				onlyEmpty = false
			}
		}
		if onlyEmpty {
			// known family (root cause of C13/get/empty-value): whether a storage key that holds an empty value exists in
			// the database depends on the history (x -> "" is stored, nothing -> "" is not, a rollback restores "" as a
			// stored empty value); the state root does not see the difference
			discr = "state-content/storage-key-absent-vs-empty"
		}
		s.vio("C01", "diverged", discr, "%s: state stores differ in keys %q%s", where, trimKeys(d), vals)
	}
}

// drain hands a lagging replica (Policy.Burst) its backlog back to back and judges what it computed: C01 against the
// reference's results for the same heights, and C03 on the replica's own receipts (an IBTP whose proof the harness
// judged invalid for the rule in force must be refused on this node too). Returns false if the run cannot go on.
func (s *scn) drain(r *replica) bool {
	if len(r.backlog) == 0 {
		return true
	}
	evs := r.backlog
	r.backlog = nil
	outs, err := r.executeBurst(evs, 12*time.Second)
	s.res.Count("fault_blocks_back_to_back")
	s.res.Add("fault_blocks_delivered_back_to_back", int64(len(evs)))
	if err != nil {
		if err == errWedged {
			s.vio("C08", "wedged", "back-to-back", "%d blocks handed back to back to replica %d: no executed event within the watchdog window", len(evs), r.id)
			s.vio("C03", "wedged", "back-to-back", "%d blocks handed back to back to replica %d: no executed event within the watchdog window", len(evs), r.id)
			s.fatal = true
			if len(s.res.Violations) == 0 {
				s.res.Aborted = "lagging replica wedged"
			}
		} else {
			s.res.Aborted = "execute (burst): " + err.Error()
		}
		return false
	}
	// a transaction hash that occurs twice in the burst has one stored receipt (the later one): not compared
	seen := map[string]int{}
	for _, ev := range evs {
		for _, tx := range ev.Block.Transactions.Transactions {
			seen[tx.GetHash().String()]++
		}
	}
	idx := 0
	for i, rr := range s.reps {
		if rr == r {
			idx = i
		}
	}
	for k, o := range outs {
		he := s.hist[o.Height]
		if he == nil {
			s.res.Aborted = fmt.Sprintf("burst: no reference result for height %d", o.Height)
			return false
		}
		skip := map[int]bool{}
		for j, th := range he.ref.TxHashes {
			if seen[th.String()] > 1 {
				skip[j] = true
			}
		}
		var refDump [][2]string
		if k == len(outs)-1 && o.Height == s.reps[0].height {
			refDump = s.reps[0].stateDump()
		}
		s.logf("  replica %d (back to back) block %d hash=%s", r.id, o.Height, o.Hash[:12])
		s.compareOne(o.Height, he.ref, o, idx, refDump, skip)
		for j, tx := range he.txs {
			mt := he.metas[j]
			ib := tx.IBTP
			if ib == nil || j >= len(o.Receipts) || skip[j] || mt.kind == "entry" || ib.Group != nil || s.ibtp.pair(ib.From, ib.To).batch {
				continue
			}
			if o.Receipts[j].Status != pb.Receipt_SUCCESS || mt.proofOK {
				continue
			}
			if s.cfg.RuleOps && mt.judge != nil && mt.judge.ruleAt >= o.Height && mt.judge.ruleAt != 0 {
				continue // the master rule of the judging chain changed in that very block: no verdict
			}
			s.vio("C03", "unverified-ibtp-accepted", proofClass(mt.note)+"/by-a-node-handed-its-blocks-back-to-back", "block %d tx %d: IBTP %s-%s-%d was accepted by replica %d, which was handed blocks %d..%d back to back, although its proof is %s for the rule in force after block %d (the node that executed one block at a time refused it: %q)",
				o.Height, j, ib.From, ib.To, ib.Index, r.id, outs[0].Height, outs[len(outs)-1].Height, mt.note, o.Height-1, he.ref.Receipts[j].Ret)
		}
		if s.prop == "C07" {
			// "never announced to any appchain as an interchain delivery": the delivery set this node hands on with the
			// block's executed event, as a consumer sees it that gets round to it only after the following blocks ran
			for j := range he.txs {
				if j < len(o.Receipts) && !skip[j] && o.Receipts[j].Status == pb.Receipt_FAILED && counterHasAnywhere(o.Meta, j) {
					s.vio("C07", "failed-tx-delivered", "by-a-node-handed-its-blocks-back-to-back", "block %d tx %d (%s %s) FAILED (%q) on replica %d, which was handed blocks %d..%d back to back, yet the delivery set that node announces for the block lists it: %s", o.Height, j, he.metas[j].kind, he.metas[j].note, o.Receipts[j].Ret, r.id, outs[0].Height, outs[len(outs)-1].Height, metaString(o.Meta))
				}
			}
		}
		switch s.prop {
		case "C02", "C04", "C05", "C06", "C16":
			// the judged node refused this IBTP and its oracles found nothing wrong with that; a node that accepts it when
			// it is handed its blocks back to back has accepted what the property says must be rejected
			for j, tx := range he.txs {
				if tx.IBTP == nil || j >= len(o.Receipts) || j >= len(he.ref.Receipts) || skip[j] || he.metas[j].kind == "entry" {
					continue
				}
				if he.ref.Receipts[j].Status == pb.Receipt_FAILED && o.Receipts[j].Status == pb.Receipt_SUCCESS {
					ib := tx.IBTP
					s.vio(s.prop, "ibtp-accepted-by-a-node-handed-its-blocks-back-to-back", he.metas[j].kind+"/"+ib.Type.String(), "block %d tx %d: IBTP %s-%s-%d (%s) was refused by the node that executed one block at a time (%q) and accepted by replica %d, which was handed blocks %d..%d back to back", o.Height, j, ib.From, ib.To, ib.Index, he.metas[j].note, he.ref.Receipts[j].Ret, r.id, outs[0].Height, outs[len(outs)-1].Height)
				}
			}
		}
		delete(s.hist, o.Height)
		if len(s.res.Violations) > 0 {
			s.fatal = true
			return false
		}
	}
	return true
}

func trimKeys(ks []string) []string {
	var out []string
	for i, k := range ks {
		if i >= 6 {
			out = append(out, fmt.Sprintf("… %d more", len(ks)-6))
			break
		}
		if len(k) > 20 && !isPrintable(k[:20]) {
			out = append(out, hex.EncodeToString([]byte(k[:20]))+"|"+k[20:])
		} else {
			out = append(out, k)
		}
	}
	return out
}

func isPrintable(s string) bool {
	for _, c := range []byte(s) {
		if c < 32 || c > 126 {
			return false
		}
	}
	return true
}

// roleKey resolves a caller role to a key.
func (s *scn) roleKey(role string, c *mChain) *Key {
	switch role {
	case "chainadmin":
		return c.admin
	case "otherchainadmin":
		return s.chains[(indexOfChain(s.chains, c)+1)%len(s.chains)].admin
	case "govadmin":
		return s.cfg.World.adminKey(0)
	case "node":
		return keyFor("node")
	default:
		return s.users[len(s.users)-1]
	}
}

// applyRelay: an IBTP relayed from the other BitXHub (id 1357) to a local service.
func (s *scn) applyRelay(st CStep) {
	if s.cfg.Relay <= 0 || len(s.chains) == 0 {
		return
	}
	var dsts []*mService
	for _, c := range s.chains {
		dsts = append(dsts, c.services...)
	}
	d := dsts[((st.Pair%len(dsts))+len(dsts))%len(dsts)]
	from := fmt.Sprintf("%s:remotechain:svc%d", relayHubID, st.Pair%2)
	to := d.full(s.cfg.World.ChainID)
	pm := s.ibtp.pair(from, to)
	ib := &pb.IBTP{From: from, To: to, Type: pb.IBTP_INTERCHAIN, TimeoutHeight: st.T}
	ib.Index = s.ibtp.pickIndex(pm.reqSubmitted(), st.Idx)
	if s.relaySet == nil {
		s.observeRelaySet()
	}
	n := s.relayN
	proof, distinct := relayProof(ib, pb.TransactionStatus_BEGIN, st.Signers, s.relaySet)
	sender := s.users[1%len(s.users)]
	valid := n > 0 && distinct > (n-1)/3
	m := &txMeta{kind: "relay", ibtp: ib, sender: sender, proofOK: valid, note: fmt.Sprintf("signers=%d/%d distinct-registered=%d", len(st.Signers), n, distinct)}
	var tx *pb.BxhTransaction
	switch st.Proof {
	case "absent":
		tx = s.b.ibtpTx(sender, ib, nil, false)
		m.proofOK = false
		m.note += "/proof-absent"
	case "badhash":
		tx = s.b.ibtpTx(sender, ib, proof, true)
		tx.Extra = append([]byte("x"), proof...)
		tx.Signature = nil
		_ = tx.Sign(sender.Priv)
		tx.TransactionHash = tx.Hash()
		m.proofOK = false
		m.note += "/proof-hash-mismatch"
	default:
		tx = s.b.ibtpTx(sender, ib, proof, true)
	}
	pm.noteReqSubmitted(ib.Index)
	s.add(tx, m)
}

// panicSite names the first frames below the panic (for aborted-run diagnostics).
func panicSite() string {
	pcs := make([]uintptr, 24)
	n := runtime.Callers(3, pcs)
	fr := runtime.CallersFrames(pcs[:n])
	var out []string
	for {
		f, more := fr.Next()
		if strings.Contains(f.Function, "meshplus") && !strings.Contains(f.Function, "panicSite") {
			out = append(out, fmt.Sprintf("%s:%d", f.Function[strings.LastIndex(f.Function, "/")+1:], f.Line))
		}
		if !more || len(out) >= 5 {
			break
		}
	}
	return strings.Join(out, " < ")
}

// pokeViews issues the queries an API client may send at any moment (status of recent cross-chain transactions,
// interchain counters, object records) through the node's read-only executor and ignores the answers: what the node
// answers later, after the block stream has moved on, is what the oracles judge.
func (s *scn) pokeViews() {
	if len(s.reps) == 0 || len(s.users) == 0 {
		return
	}
	who := s.users[0]
	var q []pb.Transaction
	if s.ibtp != nil {
		ids := s.ibtp.order
		if len(ids) > 24 {
			ids = ids[len(ids)-24:]
		}
		for _, id := range ids {
			q = append(q, viewTx(who, constant.TransactionMgrContractAddr, "GetStatus", pb.String(id)))
		}
		for k := range s.ibtp.pairs {
			p := s.ibtp.pairs[k]
			q = append(q, viewTx(who, constant.InterchainContractAddr, "GetInterchain", pb.String(p.from)))
		}
	}
	for _, c := range s.chains {
		q = append(q, viewTx(who, constant.AppchainMgrContractAddr, "GetAppchain", pb.String(c.id)))
		for _, sv := range c.services {
			q = append(q, viewTx(who, constant.ServiceMgrContractAddr, "GetServiceInfo", pb.String(c.id+":"+sv.id)))
		}
	}
	for _, id := range s.proposals {
		q = append(q, viewTx(who, constant.GovernanceContractAddr, "GetProposal", pb.String(id)))
	}
	if len(q) > 0 {
		s.reps[0].viewCall(q...)
		s.res.Count("fault_api_queries_while_competing_block_is_head")
	}
	// a pier (re)connects and asks the router for the head it finds
	switch s.prop {
	case "C02", "C05", "C06":
		if rt := s.reps[0].router(); rt != nil {
			h := s.reps[0].height
			for _, c := range s.chains {
				ch := make(chan *pb.InterchainTxWrappers, 4)
				ok := func() (ok bool) {
					defer func() { _ = recover() }()
					return rt.GetInterchainTxWrappers(c.id, h, h, ch) == nil
				}()
				if ok {
					for range ch {
					}
				}
			}
			s.res.Count("fault_pier_catch_up_while_competing_block_is_head")
		}
	}
}
