package ledgersim

import (
	"bytes"
	"encoding/json"
	"fmt"
	"os"

	"github.com/meshplus/bitxhub/verif/engines/chainsim"
	"github.com/meshplus/bitxhub/verif/sim"
)

// A quarter of the C09 and C12 runs are node-level: blocks produced, rolled back and re-executed by the real
// block executor (engines/chainsim, profiles "C09"/"C12"), because both statements speak about executed
// blocks; the other runs drive the ledger API directly with synthetic blocks (hist.go).
func nodeLevel(c json.RawMessage) bool { return bytes.Contains(c, []byte(`"world"`)) }

var histOps = map[string]bool{"block": true, "rollback": true, "reopen": true, "replay": true}

func nodeLevelStep(s json.RawMessage) bool {
	var st struct {
		Op string `json:"op"`
	}
	_ = json.Unmarshal(s, &st)
	return !histOps[st.Op]
}

type Engine struct{}

func (Engine) Name() string { return "ledgersim" }

func (Engine) Generate(prop string, r *sim.Rand, tier string) *sim.Plan {
	switch prop {
	case "C13":
		if r.Chance(0.02) || os.Getenv("VERIF_C13_NODE") != "" {
			return chainsim.Generate(prop, r, tier) // node level: records of a user contract through the executor and the WASM host functions
		}
		return genC13(r, tier)
	case "C10":
		if r.Chance(0.04) {
			return chainsim.Generate(prop, r, tier) // second sentence of the statement: transaction and receipt roots of executed blocks
		}
		return genC10(r, tier)
	case "C12", "C09":
		if r.Chance(0.25) {
			return chainsim.Generate(prop, r, tier)
		}
		return genHist(r, tier, prop)
	case "C11":
		return genC11(r, tier)
	}
	panic("ledgersim: unknown property " + prop)
}

func (Engine) Execute(prop string, p *sim.Plan, keep bool) (res *sim.Result) {
	defer func() {
		if e := recover(); e != nil {
			// a panic of the code under test while the harness only issued legal API calls
			if res == nil {
				res = sim.NewResult()
			}
			res.Violate(prop, "panic", res.Steps, "", "ledger panicked: %v", e)
		}
	}()
	switch prop {
	case "C13":
		if nodeLevel(p.Config) {
			return chainsim.Execute(prop, p, keep)
		}
		return execC13(p, keep)
	case "C10":
		if nodeLevel(p.Config) {
			return chainsim.Execute(prop, p, keep)
		}
		return execC10(p, keep)
	case "C12", "C09":
		if nodeLevel(p.Config) {
			return chainsim.Execute(prop, p, keep)
		}
		return execHist(prop, p, keep)
	case "C11":
		return execC11(p, keep)
	}
	r := sim.NewResult()
	r.Aborted = fmt.Sprintf("unknown property %s", prop)
	return r
}

func (Engine) SimplifyStep(prop string, s json.RawMessage) []json.RawMessage {
	switch prop {
	case "C10":
		if !bytes.Contains(s, []byte(`"writes"`)) {
			return chainsim.SimplifyStep(s) // a node-level step (ledger-level steps are write sets)
		}
		return simplifyC10Step(s)
	case "C12", "C09", "C11":
		if prop != "C11" && nodeLevelStep(s) {
			return chainsim.SimplifyStep(s)
		}
		return simplifyHStep(s)
	}
	if prop == "C13" && bytes.Contains(s, []byte(`"pair"`)) == false && nodeLevelC13Step(s) {
		return chainsim.SimplifyStep(s)
	}
	return simplifyLStep(s)
}

func nodeLevelC13Step(s json.RawMessage) bool {
	var st struct {
		Op string `json:"op"`
	}
	_ = json.Unmarshal(s, &st)
	return st.Op == "kv" || st.Op == "cut" || st.Op == "transfer"
}

func (Engine) SimplifyConfig(prop string, c json.RawMessage) []json.RawMessage {
	switch prop {
	case "C10":
		if nodeLevel(c) {
			return chainsim.SimplifyConfig(c)
		}
		return simplifyC10Config(c)
	case "C11":
		return simplifyC11Config(c)
	case "C09", "C12", "C13":
		if nodeLevel(c) {
			return chainsim.SimplifyConfig(c)
		}
	}
	return nil
}
