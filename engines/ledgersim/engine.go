package ledgersim

import (
	"encoding/json"
	"fmt"

	"github.com/meshplus/bitxhub/verif/sim"
)

type Engine struct{}

func (Engine) Name() string { return "ledgersim" }

func (Engine) Generate(prop string, r *sim.Rand, tier string) *sim.Plan {
	switch prop {
	case "C13":
		return genC13(r, tier)
	case "C10":
		return genC10(r, tier)
	case "C12", "C09":
		return genHist(r, tier, prop)
	case "C11":
		return genC11(r, tier)
	}
	panic("ledgersim: unknown property " + prop)
}

func (Engine) Execute(prop string, p *sim.Plan, keep bool) (res *sim.Result) {
	defer func() {
		if e := recover(); e != nil {
			// a panic of the code under test while the harness only issued legal API calls
			if res == nil {
				res = sim.NewResult()
			}
			res.Violate(prop, "panic", res.Steps, "", "ledger panicked: %v", e)
		}
	}()
	switch prop {
	case "C13":
		return execC13(p, keep)
	case "C10":
		return execC10(p, keep)
	case "C12", "C09":
		return execHist(prop, p, keep)
	case "C11":
		return execC11(p, keep)
	}
	r := sim.NewResult()
	r.Aborted = fmt.Sprintf("unknown property %s", prop)
	return r
}

func (Engine) SimplifyStep(prop string, s json.RawMessage) []json.RawMessage {
	switch prop {
	case "C10":
		return simplifyC10Step(s)
	case "C12", "C09", "C11":
		return simplifyHStep(s)
	}
	return simplifyLStep(s)
}

func (Engine) SimplifyConfig(prop string, c json.RawMessage) []json.RawMessage {
	switch prop {
	case "C10":
		return simplifyC10Config(c)
	case "C11":
		return simplifyC11Config(c)
	}
	return nil
}
