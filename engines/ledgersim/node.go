// Package ledgersim drives the real internal/ledger (state ledger, chain ledger, block
// file) on a simulated KV disk (sim.SimKV) and checks C09–C13 against reference models.
package ledgersim

import (
	"encoding/hex"
	"fmt"
	"io"
	"math/big"
	"os"
	"path/filepath"
	"sort"

	"github.com/meshplus/bitxhub-kit/crypto"
	"github.com/meshplus/bitxhub-kit/crypto/asym"
	"github.com/meshplus/bitxhub-kit/storage/blockfile"
	"github.com/meshplus/bitxhub-kit/types"
	"github.com/meshplus/bitxhub-model/pb"
	"github.com/meshplus/bitxhub/internal/ledger"
	"github.com/meshplus/bitxhub/internal/repo"
	"github.com/meshplus/bitxhub/verif/sim"
	ledger2 "github.com/meshplus/eth-kit/ledger"
	"github.com/sirupsen/logrus"
)

var (
	quietLogger = func() logrus.FieldLogger {
		l := logrus.New()
		l.SetOutput(io.Discard)
		l.SetLevel(logrus.PanicLevel)
		return l
	}()
	theRepo = func() *repo.Repo {
		// fixed key: block signatures are deterministic inputs of the run
		priv, err := asym.GenerateKeyPair(crypto.Secp256k1)
		if err != nil {
			panic(err)
		}
		addr, _ := priv.PublicKey().Address()
		r := &repo.Repo{Key: &repo.Key{PrivKey: priv, Address: addr.String()}, Config: &repo.Config{}}
		r.Config.Executor.Type = "serial"
		return r
	}()
)

// universe: 4 accounts × 7 keys; keys that are prefixes of each other.
var (
	uniAddrs = func() []*types.Address {
		var a []*types.Address
		for i := 0; i < 4; i++ {
			b := make([]byte, 20)
			b[0] = 0xA0 + byte(i)
			b[19] = byte(i + 1)
			a = append(a, types.NewAddress(b))
		}
		return a
	}()
	uniKeys     = []string{"a", "ab", "abc", "b", "ba", "c-1", "c-10", "\xff\xfe\x01", "ab\x80\xc3\x28"} // the last two are not valid UTF-8 (EVM storage slots are 32-byte hashes)
	uniPrefixes = []string{"", "a", "ab", "b", "c-1", "z"}
)

// LStep is one step of a ledgersim plan.
type LStep struct {
	Op string `json:"op"`
	A  int    `json:"a,omitempty"`
	K  int    `json:"k,omitempty"`
	V  string `json:"v,omitempty"` // hex
	N  uint64 `json:"n,omitempty"`
}

func (s LStep) val() []byte {
	if s.V == "-" {
		return []byte{}
	}
	b, _ := hex.DecodeString(s.V)
	return b
}

// node is one ledger instance on simulated storage.
type node struct {
	stateKV *sim.SimKV
	chainKV *sim.SimKV
	dir     string
	full    bool
	cacheN  int // 0 = shipped sizes
	sl      ledger2.StateLedger
	lg      *ledger.Ledger
	bf      *blockfile.BlockFile
	cache   *ledger.AccountCache
	height  uint64
	prev    *types.Hash
	snaps   []int
	pending []pendingBlock
}

type pendingBlock struct {
	accounts map[string]ledger2.IAccount
	root     *types.Hash
}

func newCache(n int) *ledger.AccountCache {
	var c *ledger.AccountCache
	var err error
	if n <= 0 {
		c, err = ledger.NewAccountCache()
	} else {
		c, err = ledger.VerifNewAccountCacheWithSizes(n, n, n)
	}
	if err != nil {
		panic(err)
	}
	return c
}

func scratchDir() string {
	d := os.Getenv("VERIF_SCRATCH")
	if d == "" {
		d = os.TempDir()
	}
	return d
}

var dirSeq int

func newNode(full bool, cacheN int) (*node, error) {
	n := &node{stateKV: sim.NewSimKV(), chainKV: sim.NewSimKV(), full: full, cacheN: cacheN}
	if full {
		dirSeq++
		n.dir = filepath.Join(scratchDir(), fmt.Sprintf("bf-%d-%d", os.Getpid(), dirSeq))
		if err := os.MkdirAll(n.dir, 0755); err != nil {
			return nil, err
		}
	}
	return n, n.open()
}

func (n *node) open() error {
	n.cache = newCache(n.cacheN)
	n.snaps = nil
	if !n.full {
		sl, err := ledger.NewSimpleLedger(theRepo, n.stateKV, n.cache, quietLogger)
		if err != nil {
			return err
		}
		n.sl = sl
		n.height = sl.Version()
		return nil
	}
	bf, err := blockfile.NewBlockFile(n.dir, quietLogger)
	if err != nil {
		return fmt.Errorf("blockfile: %w", err)
	}
	lg, err := ledger.New(theRepo, n.chainKV, n.stateKV, bf, n.cache, quietLogger)
	if err != nil {
		bf.Close()
		return err
	}
	n.lg = lg
	n.bf = bf
	n.sl = lg.StateLedger
	n.height = lg.GetChainMeta().Height
	n.prev = lg.GetChainMeta().BlockHash
	return nil
}

func (n *node) close() {
	if n.full && n.lg != nil {
		n.lg.Close()
		n.lg = nil
	}
}

func (n *node) destroy() {
	n.close()
	if n.dir != "" {
		os.RemoveAll(n.dir)
	}
}

func (n *node) reopen() error {
	n.close()
	return n.open()
}

// flush ends the block under execution (FlushDirtyData) without persisting it: this is what the executor
// does before it hands the block to the persist goroutine. The flushed block is committed later by
// commitPending; until then its writes live only in the account cache.
func (n *node) flush() *types.Hash {
	n.sl.ClearChangerAndRefund()
	n.snaps = nil
	accounts, root := n.sl.FlushDirtyData()
	n.pending = append(n.pending, pendingBlock{accounts: accounts, root: root})
	return root
}

// commitPending persists the oldest flushed block (state ledger only).
func (n *node) commitPending() *types.Hash {
	pb0 := n.pending[0]
	n.pending = n.pending[1:]
	h := n.height + 1
	if err := n.sl.Commit(h, pb0.accounts, pb0.root); err != nil {
		panic(err)
	}
	n.height = h
	return pb0.root
}

// commit flushes the dirty data and persists block height+1. Returns the state root.
func (n *node) commit() (*types.Hash, *pb.Block) {
	if len(n.pending) > 0 {
		panic("commit with flushed blocks pending")
	}
	n.sl.ClearChangerAndRefund()
	n.snaps = nil
	accounts, root := n.sl.FlushDirtyData()
	h := n.height + 1
	if !n.full {
		if err := n.sl.Commit(h, accounts, root); err != nil {
			panic(err)
		}
		n.height = h
		return root, nil
	}
	blk := mkBlock(h, n.prev, root, nil)
	n.lg.PersistBlockData(&ledger.BlockData{Block: blk, Accounts: accounts, InterchainMeta: &pb.InterchainMeta{}})
	n.height = h
	n.prev = blk.BlockHash
	return root, blk
}

func mkBlock(h uint64, parent *types.Hash, root *types.Hash, txs []pb.Transaction) *pb.Block {
	if parent == nil {
		parent = &types.Hash{}
	}
	blk := &pb.Block{
		BlockHeader: &pb.BlockHeader{
			Number: h, StateRoot: root, ParentHash: parent, Timestamp: int64(1000 + h),
			TxRoot: &types.Hash{}, ReceiptRoot: &types.Hash{}, TimeoutRoot: &types.Hash{}, Version: []byte("1.0.0"),
		},
		Transactions: &pb.Transactions{Transactions: txs},
		Signature:    []byte("sig"), // fixed: signing is not under test and would add randomness
	}
	blk.BlockHash = blk.Hash()
	return blk
}

// stateDump is the state store without journal bookkeeping keys.
func stateDump(kv *sim.SimKV) [][2]string {
	return kv.Dump(func(k string) bool { return sim.HasPrefixBytes(k, "journal-") })
}

// ---------------------------------------------------------------------------------------------
// reference model

type mAcct struct {
	bal   *big.Int
	nonce uint64
	code  []byte
	st    map[string][]byte // absent or nil = not live
}

func (a *mAcct) clone() *mAcct {
	c := &mAcct{bal: new(big.Int).Set(a.bal), nonce: a.nonce, code: a.code, st: map[string][]byte{}}
	for k, v := range a.st {
		c.st[k] = v
	}
	return c
}

type mState map[int]*mAcct

func newMState() mState {
	m := mState{}
	for i := range uniAddrs {
		m[i] = &mAcct{bal: new(big.Int), st: map[string][]byte{}}
	}
	return m
}

func (m mState) clone() mState {
	c := mState{}
	for i, a := range m {
		c[i] = a.clone()
	}
	return c
}

type undo func(m mState)

type model struct {
	work      mState
	committed mState
	journal   []undo
	snaps     []int // journal length at snapshot
	hist      map[uint64]mState
	height    uint64
	minJnl    uint64
	pend      []mState // flushed, not yet committed blocks (oldest first)
}

func newModel() *model {
	return &model{work: newMState(), committed: newMState(), hist: map[uint64]mState{0: newMState()}}
}

func (m *model) set(a int, k string, v []byte, journaled bool) {
	prev, had := m.work[a].st[k]
	if journaled {
		m.journal = append(m.journal, func(s mState) {
			if had {
				s[a].st[k] = prev
			} else {
				delete(s[a].st, k)
			}
		})
	}
	m.work[a].st[k] = v
}
func (m *model) setBal(a int, v *big.Int) {
	prev := m.work[a].bal
	m.journal = append(m.journal, func(s mState) { s[a].bal = prev })
	m.work[a].bal = v
}
func (m *model) setNonce(a int, v uint64) {
	prev := m.work[a].nonce
	m.journal = append(m.journal, func(s mState) { s[a].nonce = prev })
	m.work[a].nonce = v
}
func (m *model) setCode(a int, c []byte) {
	prev := m.work[a].code
	m.journal = append(m.journal, func(s mState) { s[a].code = prev })
	m.work[a].code = c
}
func (m *model) snapshot() { m.snaps = append(m.snaps, len(m.journal)) }
func (m *model) revert(idx int) {
	to := m.snaps[idx]
	for i := len(m.journal) - 1; i >= to; i-- {
		m.journal[i](m.work)
	}
	m.journal = m.journal[:to]
	m.snaps = m.snaps[:idx]
}
func (m *model) txend() { m.journal, m.snaps = nil, nil }

// flush ends the block: its writes stay visible (work) and are queued for commitPending.
func (m *model) flush() {
	m.txend()
	m.pend = append(m.pend, m.work.clone())
}
func (m *model) commitPending() {
	st := m.pend[0]
	m.pend = m.pend[1:]
	m.commitState(st)
}
func (m *model) commit() {
	m.txend()
	m.commitState(m.work.clone())
}
func (m *model) commitState(st mState) {
	m.height++
	m.committed = st
	m.hist[m.height] = m.committed.clone()
	if m.minJnl == 0 {
		m.minJnl = m.height
	}
	if m.height > 10 && m.height-10 > m.minJnl {
		m.minJnl = m.height - 10
	}
}
func (m *model) reopen() {
	m.txend()
	m.work = m.committed.clone()
}
func (m *model) rollback(h uint64) {
	m.txend()
	m.committed = m.hist[h].clone()
	m.work = m.committed.clone()
	for x := range m.hist {
		if x > h {
			delete(m.hist, x)
		}
	}
	m.height = h
	if h == 0 {
		m.minJnl = 0
	}
}
func (m *model) query(a int, prefix string) [][]byte {
	var out [][]byte
	for k, v := range m.work[a].st {
		if v != nil && len(k) >= len(prefix) && k[:len(prefix)] == prefix {
			out = append(out, v)
		}
	}
	sort.Slice(out, func(i, j int) bool { return string(out[i]) < string(out[j]) })
	return out
}

// canonical dump of a model state, comparable with dumpVia()
func (s mState) dump() string {
	out := ""
	for i := range uniAddrs {
		a := s[i]
		out += fmt.Sprintf("A%d bal=%s nonce=%d code=%x;", i, a.bal, a.nonce, a.code)
		for _, k := range uniKeys {
			if v, ok := a.st[k]; ok && v != nil {
				out += fmt.Sprintf(" %s=%x", k, v)
			}
		}
		out += "\n"
	}
	return out
}

// dumpVia reads the whole universe through the public getters of a state ledger.
func dumpVia(sl ledger2.StateLedger) string {
	out := ""
	for i, ad := range uniAddrs {
		out += fmt.Sprintf("A%d bal=%s nonce=%d code=%x;", i, sl.GetBalance(ad), sl.GetNonce(ad), sl.GetCode(ad))
		for _, k := range uniKeys {
			if ok, v := sl.GetState(ad, []byte(k)); ok {
				out += fmt.Sprintf(" %s=%x", k, v)
			}
		}
		out += "\n"
	}
	return out
}
