package ledgersim

import (
	"bytes"
	"encoding/hex"
	"encoding/json"
	"errors"
	"fmt"
	"math/big"
	"time"

	"github.com/meshplus/bitxhub-kit/types"
	"github.com/meshplus/bitxhub-model/pb"
	"github.com/meshplus/bitxhub/internal/ledger"
	"github.com/meshplus/bitxhub/verif/sim"
)

// ---------------------------------------------------------------------------------------------
// block histories on the full ledger (state store + chain store + block file): C12 and the ledger
// half of C09; also the base of C11.

type HConfig struct {
	Cache int `json:"cache"`
}

// HStep: op = block | rollback | reopen | replay
type HStep struct {
	Op     string  `json:"op"`
	Writes []LStep `json:"writes,omitempty"`
	NTx    int     `json:"ntx,omitempty"`
	IC     int     `json:"ic,omitempty"` // number of interchain counter entries in the block's meta
	N      int     `json:"n,omitempty"`  // rollback: target selector
	Tag    uint64  `json:"tag,omitempty"`
	Reader bool    `json:"reader,omitempty"` // block: the index store is slow and an API reader looks at the chain while the block is being persisted
}

type mBlock struct {
	h        uint64
	hash     *types.Hash
	parent   *types.Hash
	root     *types.Hash
	txs      []*pb.BxhTransaction
	receipts []*pb.Receipt
	meta     *pb.InterchainMeta
	icCount  uint64
	writes   []LStep
	tag      uint64
	ic       int
	dump     string      // dumpVia at commit
	kvDump   [][2]string // state store content (no journal keys) at commit
}

func genWrites(r *sim.Rand, vctr *int, max int) []LStep {
	var ws []LStep
	n := r.Range(0, max)
	for i := 0; i < n; i++ {
		s := LStep{A: r.Intn(len(uniAddrs)), K: r.Intn(len(uniKeys))}
		switch r.Weighted([]int{10, 3, 4, 2, 2, 2, 2}) {
		case 0:
			s.Op = "set"
			*vctr++
			s.V = hex.EncodeToString([]byte(fmt.Sprintf("h%d", *vctr)))
		case 1:
			s.Op = "add"
			if s.A == 3 {
				s.A = r.Intn(3)
			}
			*vctr++
			s.V = hex.EncodeToString([]byte(fmt.Sprintf("h%d", *vctr)))
		case 2:
			s.Op = "del"
		case 3:
			s.Op = "bal"
			s.N = uint64(r.Intn(1000))
		case 4:
			s.Op = "nonce"
			s.N = uint64(r.Intn(1000))
		case 5:
			s.Op = "code"
			*vctr++
			s.V = hex.EncodeToString([]byte(fmt.Sprintf("code%d", *vctr)))
		case 6:
			s.Op = "get" // touched but unchanged
		}
		ws = append(ws, s)
	}
	return ws
}

func genHist(r *sim.Rand, tier string, prop string) *sim.Plan {
	cfg := HConfig{Cache: []int{0, 0, 1, 2, 4}[r.Intn(5)]}
	p := &sim.Plan{Config: sim.MustJSON(cfg)}
	n := r.Range(4, 30)
	if tier == "thorough" {
		n = r.Range(4, 60)
	}
	vctr := 0
	wRollback := 3
	if r.Chance(0.3) {
		wRollback = 8
	}
	for i := 0; i < n; i++ {
		switch r.Weighted([]int{14, wRollback, 2, 3}) {
		case 0:
			s := HStep{Op: "block", Writes: genWrites(r, &vctr, 7), NTx: r.Intn(5), Tag: r.Uint64()}
			if r.Chance(0.3) {
				s.IC = r.Range(1, 3)
			}
			if r.Chance(0.1) {
				s.NTx = 0
			}
			s.Reader = prop == "C09" && r.Chance(0.15)
			if r.Chance(0.04) {
				// a full block of a loaded node (the ordering service's default batch size is 200 transactions)
				s.NTx = []int{129, 150, 200, 257, 300}[r.Intn(5)]
			}
			p.Steps = append(p.Steps, sim.MustJSON(s))
		case 1:
			// target selectors: 0..5 = head-n ; 6 = 0 ; 7 = far back (head-11..head-14) ; 8 = head+1 ; 9 = head ; 10 = head+7 ;
			// 11 = the lowest height whose journal is retained (the edge of the window) ; 12 = one below it ; 13 = head-6..head-9
			sel := []int{0, 1, 1, 2, 3, 4, 5, 6, 7, 7, 8, 9, 10, 11, 11, 12, 13}[r.Intn(17)]
			p.Steps = append(p.Steps, sim.MustJSON(HStep{Op: "rollback", N: sel}))
			if r.Chance(0.4) {
				p.Steps = append(p.Steps, sim.MustJSON(HStep{Op: "replay"}))
			}
		case 2:
			p.Steps = append(p.Steps, sim.MustJSON(HStep{Op: "reopen"}))
		case 3:
			p.Steps = append(p.Steps, sim.MustJSON(HStep{Op: "replay"}))
		}
	}
	return p
}

func mkTxs(h uint64, tag uint64, n int) ([]*pb.BxhTransaction, []pb.Transaction, []*pb.Receipt) {
	var txs []*pb.BxhTransaction
	var ptx []pb.Transaction
	var rs []*pb.Receipt
	for i := 0; i < n; i++ {
		tx := &pb.BxhTransaction{
			From: uniAddrs[i%len(uniAddrs)], To: uniAddrs[(i+1)%len(uniAddrs)],
			Nonce: h*100 + uint64(i), Timestamp: int64(tag%1000000) + int64(i), Payload: []byte(fmt.Sprintf("p-%d-%d-%d", h, tag, i)),
		}
		if i == 1 && (tag>>20)&7 == 0 {
			// a second copy of the previous transaction (same hash): lookups by that hash are ambiguous, those of
			// the other transactions of the block are not
			c := *txs[0]
			tx = &c
		}
		tx.TransactionHash = tx.Hash()
		txs = append(txs, tx)
		ptx = append(ptx, tx)
		st := pb.Receipt_SUCCESS
		if (tag>>uint(i))&1 == 1 {
			st = pb.Receipt_FAILED
		}
		rs = append(rs, &pb.Receipt{Version: []byte("1"), TxHash: tx.TransactionHash, Ret: []byte(fmt.Sprintf("ret-%d", i)), Status: st})
	}
	return txs, ptx, rs
}

func applyHWrites(n *node, m *model, ws []LStep) {
	for _, w := range ws {
		a := w.A % len(uniAddrs)
		ad := uniAddrs[a]
		k := uniKeys[w.K%len(uniKeys)]
		switch w.Op {
		case "set":
			n.sl.SetState(ad, []byte(k), w.val(), nil)
			m.set(a, k, w.val(), true)
		case "add":
			n.sl.AddState(ad, []byte(k), w.val())
			m.set(a, k, w.val(), true)
		case "del":
			n.sl.SetState(ad, []byte(k), nil, nil)
			m.set(a, k, nil, true)
		case "bal":
			// two thirds of the balance writes are realised the way the EVM and the grant do it: as a credit or a debit
			// relative to the balance the ledger reports (same write set, other entry point)
			want := new(big.Int).SetUint64(w.N)
			if cur := n.sl.GetBalance(ad); w.N%3 != 0 && cur != nil && cur.Cmp(want) != 0 {
				if cur.Cmp(want) < 0 {
					n.sl.GetOrCreateAccount(ad).AddBalance(new(big.Int).Sub(want, cur))
				} else {
					n.sl.GetOrCreateAccount(ad).SubBalance(new(big.Int).Sub(cur, want))
				}
			} else {
				n.sl.SetBalance(ad, want)
			}
			m.setBal(a, new(big.Int).SetUint64(w.N))
		case "nonce":
			n.sl.SetNonce(ad, w.N)
			m.setNonce(a, w.N)
		case "code":
			n.sl.SetCode(ad, w.val())
			m.setCode(a, w.val())
		case "get":
			n.sl.GetState(ad, []byte(k))
			n.sl.GetBalance(ad)
		}
	}
}

// where the concurrent reader of commitBlock reports (set by the C09 history executor)
var (
	readerRes  *sim.Result
	readerStep int
)

// commitBlock flushes and persists block height+1 on the full ledger.
func commitBlock(n *node, s HStep) *mBlock {
	n.sl.ClearChangerAndRefund()
	accounts, root := n.sl.FlushDirtyData()
	h := n.height + 1
	txs, ptx, rs := mkTxs(h, s.Tag, s.NTx)
	blk := mkBlock(h, n.prev, root, ptx)
	meta := &pb.InterchainMeta{Counter: map[string]*pb.VerifiedIndexSlice{}, TimeoutCounter: map[string]*pb.StringSlice{}, MultiTxCounter: map[string]*pb.StringSlice{}}
	ic := uint64(0)
	for i := 0; i < s.IC; i++ {
		sl := &pb.VerifiedIndexSlice{}
		for j := 0; j <= i; j++ {
			// every third index is one the executor recorded as not verified (its destination was unavailable): it is an
			// interchain transaction of the block all the same
			sl.Slice = append(sl.Slice, &pb.VerifiedIndex{Index: uint64(j), Valid: (h+uint64(i+j))%3 != 0})
			ic++
		}
		meta.Counter[fmt.Sprintf("chain%d", i)] = sl
	}
	data := &ledger.BlockData{Block: blk, Receipts: rs, Accounts: accounts, InterchainMeta: meta}
	if s.Reader && readerRes != nil {
		// slow index store with a concurrent reader: while the block's index batch waits at the store, whatever head the
		// chain meta announces must be there - the block by number and by hash, the hash by number, and for the new head
		// its transactions
		n.chainKV.Stall()
		done := make(chan struct{})
		go func() { n.lg.PersistBlockData(data); close(done) }()
		deadline := time.Now().Add(5 * time.Second)
		for n.chainKV.StalledWriters() < 1 && time.Now().Before(deadline) {
			select {
			case <-done:
				deadline = time.Now() // persisted without touching the index store
			default:
				time.Sleep(50 * time.Microsecond) // wall-clock poll of the ledger's own goroutines; never influences a verdict
			}
		}
		if n.chainKV.StalledWriters() >= 1 {
			readerRes.Count("fault_reader_while_block_is_persisted")
			cm := n.lg.GetChainMeta()
			if cm.Height > 0 {
				b, err := n.lg.GetBlock(cm.Height, true)
				switch {
				case err != nil:
					readerRes.Violate("C09", "head-announced-before-it-is-stored", readerStep, "get-block", "while block %d is being persisted the chain meta announces height %d (head %s) but GetBlock(%d) fails: %v", h, cm.Height, cm.BlockHash, cm.Height, err)
				case b.BlockHash.String() != cm.BlockHash.String():
					readerRes.Violate("C09", "head-announced-before-it-is-stored", readerStep, "hash", "while block %d is being persisted the chain meta announces head %s at height %d, the block stored there has hash %s", h, cm.BlockHash, cm.Height, b.BlockHash)
				default:
					if hh := n.lg.GetBlockHash(cm.Height); hh == nil || hh.String() != cm.BlockHash.String() {
						readerRes.Violate("C09", "head-announced-before-it-is-stored", readerStep, "block-hash-index", "while block %d is being persisted the chain meta announces head %s at height %d, the hash index answers %v", h, cm.BlockHash, cm.Height, hh)
					} else if _, err := n.lg.GetBlockByHash(cm.BlockHash, true); err != nil {
						readerRes.Violate("C09", "head-announced-before-it-is-stored", readerStep, "by-hash", "while block %d is being persisted the chain meta announces head %s, lookup by that hash fails: %v", h, cm.BlockHash, err)
					} else if cm.Height == h {
						for _, tx := range txs {
							if _, err := n.lg.GetTransactionMeta(tx.GetHash()); err != nil {
								readerRes.Violate("C09", "head-announced-before-it-is-stored", readerStep, "tx-meta", "while block %d is being persisted the chain meta already announces it, but its transaction %s cannot be looked up: %v", h, tx.GetHash().String()[:10], err)
								break
							}
						}
					}
				}
			}
		}
		n.chainKV.Release()
		<-done
	} else {
		n.lg.PersistBlockData(data)
	}
	n.height = h
	n.prev = blk.BlockHash
	return &mBlock{h: h, hash: blk.BlockHash, parent: blk.BlockHeader.ParentHash, root: root, txs: txs, receipts: rs, meta: meta, icCount: ic}
}

// checkChain verifies the C09 index invariants for every height <= head and that nothing of
// removed blocks is still returned.
func checkChain(res *sim.Result, prop string, step int, n *node, chain []*mBlock, removed []*mBlock) {
	lg := n.lg
	meta := lg.GetChainMeta()
	head := uint64(len(chain))
	if meta.Height != head {
		res.Violate(prop, "chain-meta", step, "height", "chain meta height %d, executed head %d", meta.Height, head)
		return
	}
	var cum uint64
	for _, b := range chain {
		cum += b.icCount
	}
	if meta.InterchainTxCount != cum {
		res.Violate(prop, "chain-meta", step, "interchain-count", "chain meta interchain count %d, sum over executed blocks %d", meta.InterchainTxCount, cum)
	}
	if head > 0 && meta.BlockHash.String() != chain[head-1].hash.String() {
		res.Violate(prop, "chain-meta", step, "head-hash", "chain meta hash %s, executed head hash %s", meta.BlockHash, chain[head-1].hash)
	}
	for _, b := range chain {
		blk, err := lg.GetBlock(b.h, true)
		if err != nil {
			res.Violate(prop, "get-block", step, "missing", "GetBlock(%d) failed: %v", b.h, err)
			return
		}
		if blk.BlockHash.String() != b.hash.String() || blk.Hash().String() != b.hash.String() {
			res.Violate(prop, "get-block", step, "hash", "block %d: stored hash %s, header hash %s, executed %s", b.h, blk.BlockHash, blk.Hash(), b.hash)
		}
		if blk.BlockHeader.ParentHash.String() != b.parent.String() || (b.h > 1 && b.parent.String() != chain[b.h-2].hash.String()) {
			res.Violate(prop, "parent-link", step, "", "block %d parent %s, hash of block %d is %s", b.h, blk.BlockHeader.ParentHash, b.h-1, chain[b.h-2].hash)
		}
		if lg.GetBlockHash(b.h).String() != b.hash.String() {
			res.Violate(prop, "block-hash-index", step, "", "GetBlockHash(%d) = %s, executed %s", b.h, lg.GetBlockHash(b.h), b.hash)
		}
		bh, err := lg.GetBlockByHash(b.hash, false)
		if err != nil || bh.BlockHeader.Number != b.h {
			res.Violate(prop, "block-by-hash", step, "", "GetBlockByHash(hash of %d) = %v, %v", b.h, bh, err)
		}
		if len(blk.Transactions.Transactions) != len(b.txs) {
			res.Violate(prop, "get-block", step, "tx-count", "block %d has %d txs, executed %d", b.h, len(blk.Transactions.Transactions), len(b.txs))
			continue
		}
		positions := map[string][]int{} // a hash may occur more than once in a block
		for i, tx := range b.txs {
			positions[tx.TransactionHash.String()] = append(positions[tx.TransactionHash.String()], i)
		}
		for i, tx := range b.txs {
			if blk.Transactions.Transactions[i].GetHash().String() != tx.TransactionHash.String() {
				res.Violate(prop, "get-block", step, "tx-order", "block %d tx %d hash differs", b.h, i)
			}
			got, err := lg.GetTransaction(tx.TransactionHash)
			if err != nil || got.GetHash().String() != tx.TransactionHash.String() || !bytes.Equal(got.GetPayload(), tx.Payload) {
				res.Violate(prop, "get-transaction", step, "", "GetTransaction(tx %d of block %d): %v", i, b.h, err)
			}
			pos := positions[tx.TransactionHash.String()]
			tm, err := lg.GetTransactionMeta(tx.TransactionHash)
			okPos := false
			for _, p := range pos {
				if err == nil && tm.Index == uint64(p) {
					okPos = true
				}
			}
			if err != nil || tm.BlockHeight != b.h || !okPos || !bytes.Equal(tm.BlockHash, b.hash.Bytes()) {
				res.Violate(prop, "tx-meta", step, "", "GetTransactionMeta(tx %d of block %d) = %+v, %v (positions of that hash in the block: %v)", i, b.h, tm, err, pos)
			}
			rc, err := lg.GetReceipt(tx.TransactionHash)
			okRc := false
			for _, p := range pos {
				if err == nil && rc.Status == b.receipts[p].Status && bytes.Equal(rc.Ret, b.receipts[p].Ret) {
					okRc = true
				}
			}
			if err != nil || !okRc || rc.TxHash.String() != tx.TransactionHash.String() {
				res.Violate(prop, "get-receipt", step, "", "GetReceipt(tx %d of block %d) = %+v, %v", i, b.h, rc, err)
			}
			if len(pos) > 1 {
				res.Count("probe_lookup_of_hash_occurring_twice_in_block")
			}
		}
		im, err := lg.GetInterchainMeta(b.h)
		if err != nil {
			res.Violate(prop, "interchain-meta", step, "missing", "GetInterchainMeta(%d): %v", b.h, err)
		} else {
			var c uint64
			for _, v := range im.Counter {
				c += uint64(len(v.Slice))
			}
			if c != b.icCount {
				res.Violate(prop, "interchain-meta", step, "count", "GetInterchainMeta(%d) lists %d, executed %d", b.h, c, b.icCount)
			}
		}
	}
	// nothing of a removed block may be returned any more (unless an identical block was re-executed)
	live := map[string]bool{}
	for _, b := range chain {
		live[b.hash.String()] = true
		for _, tx := range b.txs {
			live[tx.TransactionHash.String()] = true
		}
	}
	for _, b := range removed {
		if b.h > head {
			if _, err := lg.GetBlock(b.h, false); err == nil {
				res.Violate(prop, "rollback-leftover", step, "block-by-height", "GetBlock(%d) still answers after rollback to %d", b.h, head)
			}
			if hsh := lg.GetBlockHash(b.h); hsh.String() != (&types.Hash{}).String() {
				res.Violate(prop, "rollback-leftover", step, "block-hash-by-height", "GetBlockHash(%d) still returns %s after rollback to %d", b.h, hsh, head)
			}
			if _, err := lg.GetInterchainMeta(b.h); err == nil {
				res.Violate(prop, "rollback-leftover", step, "interchain-meta", "GetInterchainMeta(%d) still answers after rollback to %d", b.h, head)
			}
		}
		if !live[b.hash.String()] {
			if bb, err := lg.GetBlockByHash(b.hash, false); err == nil {
				res.Violate(prop, "rollback-leftover", step, "block-by-hash", "GetBlockByHash(removed block %d) still returns block %d", b.h, bb.BlockHeader.Number)
			}
		}
		for _, tx := range b.txs {
			if live[tx.TransactionHash.String()] {
				continue
			}
			if _, err := lg.GetTransaction(tx.TransactionHash); err == nil {
				res.Violate(prop, "rollback-leftover", step, "transaction", "GetTransaction(tx of removed block %d) still answers", b.h)
			}
			if _, err := lg.GetTransactionMeta(tx.TransactionHash); err == nil {
				res.Violate(prop, "rollback-leftover", step, "tx-meta", "GetTransactionMeta(tx of removed block %d) still answers", b.h)
			}
			if _, err := lg.GetReceipt(tx.TransactionHash); err == nil {
				res.Violate(prop, "rollback-leftover", step, "receipt", "GetReceipt(tx of removed block %d) still answers", b.h)
			}
		}
	}
}

func execHist(prop string, p *sim.Plan, keep bool) *sim.Result {
	res := sim.NewResult()
	res.Log.Keep = keep
	cfg := HConfig{}
	_ = json.Unmarshal(p.Config, &cfg)
	n, err := newNode(true, cfg.Cache)
	if err != nil {
		res.Aborted = err.Error()
		return res
	}
	defer n.destroy()
	m := newModel()
	var chain []*mBlock   // executed, currently valid
	var removed []*mBlock // rolled back
	var future []*mBlock  // blocks removed by the last rollback, in height order, for "replay"
	doBlock := func(i int, s HStep) {
		applyHWrites(n, m, s.Writes)
		readerRes, readerStep = nil, i
		if prop == "C09" {
			readerRes = res
		}
		mb := commitBlock(n, s)
		readerRes = nil
		m.commit()
		mb.writes = s.Writes
		mb.tag, mb.ic = s.Tag, s.IC
		mb.dump = dumpVia(n.sl)
		n.sl.Clear()
		mb.kvDump = stateDump(n.stateKV)
		chain = append(chain, mb)
		res.Count("blocks")
		res.Log.Logf("%d block h=%d root=%s hash=%s txs=%d", i, mb.h, mb.root.String()[:12], mb.hash.String()[:12], len(mb.txs))
		if prop == "C12" && mb.dump != m.committed.dump() {
			// not a rollback matter; reported so that a broken base does not hide (C13 owns this)
			res.Violate(prop, "commit-readback", i, "", "state read back after commit of block %d differs from the writes applied", mb.h)
		}
	}
	for i, raw := range p.Steps {
		var s HStep
		if json.Unmarshal(raw, &s) != nil {
			continue
		}
		res.Steps++
		switch s.Op {
		case "block":
			future = nil
			doBlock(i, s)
		case "reopen":
			if err := n.reopen(); err != nil {
				res.Violate(prop, "reopen", i, "", "reopen at height %d failed: %v", len(chain), err)
				return finishHist(res)
			}
			m.reopen()
			res.Count("reopens")
			res.Log.Logf("%d reopen h=%d", i, n.height)
		case "replay":
			// re-execute the blocks removed by the last rollback with the same writes: same roots and hashes
			if len(future) == 0 {
				continue
			}
			res.Count("probe_reexecute_after_rollback")
			for _, fb := range future {
				doBlock(i, HStep{Op: "block", Writes: fb.writes, NTx: len(fb.txs), Tag: fb.tag, IC: fb.ic})
				nb := chain[len(chain)-1]
				if prop == "C12" && nb.root.String() != fb.root.String() {
					res.Violate(prop, "reexecute-root", i, "", "re-executing block %d after rollback gave state root %s, originally %s", fb.h, nb.root, fb.root)
					return finishHist(res)
				}
				if prop == "C12" && nb.hash.String() != fb.hash.String() {
					res.Violate(prop, "reexecute-hash", i, "", "re-executing block %d after rollback gave block hash %s, originally %s", fb.h, nb.hash, fb.hash)
					return finishHist(res)
				}
			}
			future = nil
		case "rollback":
			head := uint64(len(chain))
			var target uint64
			switch {
			case s.N <= 5:
				if uint64(s.N) > head {
					target = 0
				} else {
					target = head - uint64(s.N)
				}
			case s.N == 6:
				target = 0
			case s.N == 7:
				back := uint64(11 + (i % 4))
				if back > head {
					target = 0
				} else {
					target = head - back
				}
			case s.N == 8:
				target = head + 1
			case s.N == 9:
				target = head
			case s.N == 11 && m.minJnl > 0 && m.minJnl <= head:
				target = m.minJnl
				res.Count("probe_rollback_to_the_edge_of_the_journal_window")
			case s.N == 12 && m.minJnl > 1 && m.minJnl <= head:
				target = m.minJnl - 1
				res.Count("probe_rollback_to_one_below_the_journal_window")
			case s.N == 13:
				back := uint64(6 + (i % 4))
				if back > head {
					target = 0
				} else {
					target = head - back
				}
			default:
				target = head + 7
			}
			beforeState := n.stateKV.Digest(nil)
			beforeChain := n.chainKV.Digest(nil)
			beforeBlocks, _ := n.lg.GetChainMeta(), 0
			err := n.lg.Rollback(target)
			res.Log.Logf("%d rollback %d -> %d: %v", i, head, target, err)
			if err != nil {
				res.Count("rollback_refused")
				if target > head {
					res.Count("probe_rollback_higher_refused")
					if !errors.Is(err, ledger.ErrorRollbackToHigherNumber) {
						res.Violate(prop, "rollback-error", i, "higher", "Rollback(%d) at head %d returned %v, want ErrorRollbackToHigherNumber", target, head, err)
					}
				} else {
					res.Count("probe_rollback_too_far_refused")
					// the retained window (anchor of C12: "last 10 blocks") starts at the highest pruning point any commit
					// reached; rollbacks never lower it, so after repeated rollbacks it can be close to the head
					if prop == "C12" && m.minJnl > 0 && target >= m.minJnl {
						res.Violate(prop, "rollback-refused-in-window", i, "", "Rollback(%d) at head %d was refused although journals are retained from height %d on (last 10 blocks of the highest head reached): %v", target, head, m.minJnl, err)
					}
					if !errors.Is(err, ledger.ErrorRollbackTooMuch) && prop == "C12" {
						res.Violate(prop, "rollback-error", i, "too-much", "Rollback(%d) at head %d returned %v, want ErrorRollbackTooMuch", target, head, err)
					}
				}
				// a refused rollback modifies nothing
				if prop == "C12" {
					if n.stateKV.Digest(nil) != beforeState {
						res.Violate(prop, "refused-rollback-modified", i, "state-store", "refused Rollback(%d) at head %d changed the state store", target, head)
					}
					if n.chainKV.Digest(nil) != beforeChain {
						res.Violate(prop, "refused-rollback-modified", i, "chain-store", "refused Rollback(%d) at head %d changed the chain store", target, head)
					}
					if mm := n.lg.GetChainMeta(); mm.Height != beforeBlocks.Height {
						res.Violate(prop, "refused-rollback-modified", i, "chain-meta", "refused Rollback(%d) changed chain height %d -> %d", target, beforeBlocks.Height, mm.Height)
					}
					if d := dumpVia(n.sl); d != m.committed.dump() {
						res.Violate(prop, "refused-rollback-modified", i, "state-read", "state read after refused Rollback(%d) differs from head state", target)
					}
					n.sl.Clear()
				}
				if len(res.Violations) > 0 {
					return finishHist(res)
				}
				continue
			}
			if target > head {
				res.Violate(prop, "rollback-accepted", i, "higher", "Rollback(%d) at head %d was accepted", target, head)
				return finishHist(res)
			}
			res.Count("rollback_done")
			if target == head {
				res.Count("probe_rollback_to_head")
			}
			if target == 0 {
				res.Count("probe_rollback_to_zero")
			}
			if head-target > 1 {
				res.Count("probe_rollback_multi")
			}
			future = append([]*mBlock(nil), chain[target:]...)
			removed = append(removed, chain[target:]...)
			chain = chain[:target]
			m.rollback(target)
			n.height = target
			if target == 0 {
				n.prev = &types.Hash{}
			} else {
				n.prev = chain[target-1].hash
			}
			if prop == "C12" {
				got := dumpVia(n.sl)
				n.sl.Clear()
				want := m.committed.dump()
				if got != want {
					res.Violate(prop, "rollback-state", i, "read", "state read after Rollback(%d) from %d differs from the state at commit of %d:\n got: %s\nwant: %s", target, head, target, got, want)
					return finishHist(res)
				}
				var wantKV [][2]string
				if target > 0 {
					wantKV = chain[target-1].kvDump
				}
				if d := sim.DiffDumps(stateDump(n.stateKV), wantKV); len(d) > 0 {
					res.Violate(prop, "rollback-state", i, "store", "state store after Rollback(%d) from %d differs from the store at commit of %d in keys %q", target, head, target, d)
					return finishHist(res)
				}
				if v := n.sl.Version(); v != target {
					res.Violate(prop, "rollback-state", i, "version", "state version %d after Rollback(%d)", v, target)
				}
			}
		}
		if prop == "C09" {
			checkChain(res, prop, i, n, chain, removed)
			if len(res.Violations) > 0 {
				return finishHist(res)
			}
		}
		res.State(s.Op, len(chain) > 10, len(removed) > 0, cfg.Cache, len(future) > 0)
	}
	return finishHist(res)
}

func finishHist(res *sim.Result) *sim.Result {
	res.Nontrivial = res.Counters["blocks"] >= 2 && (res.Counters["rollback_done"]+res.Counters["rollback_refused"]) > 0
	res.Shape = res.Log.Digest()
	return res
}

func simplifyHStep(raw json.RawMessage) []json.RawMessage {
	var s HStep
	if json.Unmarshal(raw, &s) != nil {
		return nil
	}
	var out []json.RawMessage
	if s.Op == "block" {
		for i := range s.Writes {
			c := s
			c.Writes = append(append([]LStep(nil), s.Writes[:i]...), s.Writes[i+1:]...)
			out = append(out, sim.MustJSON(c))
		}
		if s.NTx > 0 {
			c := s
			c.NTx = 0
			out = append(out, sim.MustJSON(c))
		}
		if s.NTx > 4 {
			c := s
			c.NTx = 3
			out = append(out, sim.MustJSON(c))
		}
		if s.IC > 0 {
			c := s
			c.IC = 0
			out = append(out, sim.MustJSON(c))
		}
	}
	return out
}
