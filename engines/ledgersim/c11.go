package ledgersim

import (
	"encoding/json"
	"fmt"
	"github.com/meshplus/bitxhub-model/pb"
	"io"
	"os"
	"path/filepath"
	"sort"
	"strings"

	"github.com/meshplus/bitxhub/internal/ledger"
	"github.com/meshplus/bitxhub/verif/sim"
)

// ---------------------------------------------------------------------------------------------
// C11: crash at any persist point. For each selected commit of a seeded history the durable
// writes are recorded as issued by the code (SimKV batch log of both stores, file growth of the
// block-file tables) and EVERY crash image = prefix(state batches) x prefix(chain batches) x
// prefix(block-file writes) is built, reopened and checked.

type C11Config struct {
	Cache   int   `json:"cache"`
	CrashAt []int `json:"crash_at"` // indices of block steps whose commit is enumerated
	Torn    bool  `json:"torn"`     // additionally probe torn block-file records (separately labelled)
}

var bfTables = []string{"hashes", "bodies", "transactions", "receipts", "interchain"}

func genC11(r *sim.Rand, tier string) *sim.Plan {
	nb := r.Range(2, 9)
	if r.Chance(0.4) {
		nb = r.Range(12, 16) // reach journal pruning
	}
	cfg := C11Config{Cache: []int{0, 0, 2}[r.Intn(3)]}
	ncrash := 1
	if tier == "thorough" {
		ncrash = 3
	}
	seen := map[int]bool{}
	for len(cfg.CrashAt) < ncrash {
		var c int
		switch r.Intn(4) {
		case 0:
			c = 0
		case 1:
			c = nb - 1
		default:
			c = r.Intn(nb)
		}
		if !seen[c] {
			seen[c] = true
			cfg.CrashAt = append(cfg.CrashAt, c)
		}
		if len(seen) >= nb {
			break
		}
	}
	sort.Ints(cfg.CrashAt)
	p := &sim.Plan{Config: sim.MustJSON(cfg)}
	vctr := 0
	for i := 0; i < nb; i++ {
		s := HStep{Op: "block", Writes: genWrites(r, &vctr, 6), NTx: r.Intn(4), Tag: r.Uint64()}
		if r.Chance(0.3) {
			s.IC = r.Range(1, 2)
		}
		p.Steps = append(p.Steps, sim.MustJSON(s))
	}
	return p
}

func copyDir(src, dst string) error {
	return filepath.Walk(src, func(p string, info os.FileInfo, err error) error {
		if err != nil {
			return err
		}
		rel, _ := filepath.Rel(src, p)
		t := filepath.Join(dst, rel)
		if info.IsDir() {
			return os.MkdirAll(t, 0755)
		}
		in, err := os.Open(p)
		if err != nil {
			return err
		}
		defer in.Close()
		out, err := os.Create(t)
		if err != nil {
			return err
		}
		defer out.Close()
		_, err = io.Copy(out, in)
		return err
	})
}

func bfSizes(dir string) map[string]int64 {
	m := map[string]int64{}
	root := filepath.Join(dir, "storage", "blockfile")
	ents, _ := os.ReadDir(root)
	for _, e := range ents {
		if st, err := e.Info(); err == nil {
			m[e.Name()] = st.Size()
		}
	}
	return m
}

type bfWrite struct {
	file      string
	pre, post int64
}

// bfWriteSeq reconstructs the block-file write sequence of one AppendBlock from file growth.
func bfWriteSeq(pre, post map[string]int64) []bfWrite {
	var ws []bfWrite
	for _, t := range bfTables {
		for _, f := range []string{t + ".0000.rdat", t + ".ridx"} {
			if post[f] != pre[f] {
				ws = append(ws, bfWrite{file: f, pre: pre[f], post: post[f]})
			}
		}
	}
	return ws
}

func execC11(p *sim.Plan, keep bool) *sim.Result {
	res := sim.NewResult()
	res.Log.Keep = keep
	cfg := C11Config{}
	_ = json.Unmarshal(p.Config, &cfg)
	var steps []HStep
	for _, raw := range p.Steps {
		var s HStep
		if json.Unmarshal(raw, &s) == nil && s.Op == "block" {
			steps = append(steps, s)
		}
	}
	ref, err := newNode(true, cfg.Cache)
	if err != nil {
		res.Aborted = err.Error()
		return res
	}
	defer ref.destroy()
	m := newModel()
	var chain []*mBlock
	crash := map[int]bool{}
	for _, c := range cfg.CrashAt {
		crash[c] = true
	}
	type crashRec struct {
		idx                int
		preState, preChain *sim.SimKV
		stateLog, chainLog []sim.KVBatch
		postDir            string
		bfSeq              []bfWrite
	}
	var recs []*crashRec
	defer func() {
		for _, r := range recs {
			os.RemoveAll(r.postDir)
		}
	}()
	for i, s := range steps {
		var rec *crashRec
		var preSizes map[string]int64
		if crash[i] {
			rec = &crashRec{idx: i, preState: ref.stateKV.Clone(), preChain: ref.chainKV.Clone()}
			preSizes = bfSizes(ref.dir)
			ref.stateKV.StartRecording()
			ref.chainKV.StartRecording()
		}
		applyHWrites(ref, m, s.Writes)
		mb := commitBlock(ref, s)
		m.commit()
		mb.writes, mb.tag, mb.ic = s.Writes, s.Tag, s.IC
		mb.dump = m.committed.dump()
		mb.kvDump = stateDump(ref.stateKV)
		chain = append(chain, mb)
		res.Log.Logf("ref block %d root=%s hash=%s", mb.h, mb.root.String()[:12], mb.hash.String()[:12])
		if rec != nil {
			rec.stateLog = ref.stateKV.StopRecording()
			rec.chainLog = ref.chainKV.StopRecording()
			rec.bfSeq = bfWriteSeq(preSizes, bfSizes(ref.dir))
			dirSeq++
			rec.postDir = filepath.Join(scratchDir(), fmt.Sprintf("c11-post-%d-%d", os.Getpid(), dirSeq))
			if err := copyDir(ref.dir, rec.postDir); err != nil {
				res.Aborted = "copy: " + err.Error()
				return res
			}
			recs = append(recs, rec)
		}
	}
	res.Steps = len(steps)
	// enumerate the crash images of every recorded commit
	for _, rec := range recs {
		N := uint64(rec.idx + 1)
		if len(rec.stateLog) > 1 {
			res.Count("probe_commit_with_journal_pruning")
		}
		if N == 1 {
			res.Count("probe_crash_in_first_block")
		}
		res.Add("state_batches_recorded", int64(len(rec.stateLog)))
		res.Add("chain_batches_recorded", int64(len(rec.chainLog)))
		res.Add("blockfile_writes_recorded", int64(len(rec.bfSeq)))
		for si := 0; si <= len(rec.stateLog); si++ {
			for ci := 0; ci <= len(rec.chainLog); ci++ {
				for bi := 0; bi <= len(rec.bfSeq); bi++ {
					res.Count("crash_images")
					res.Log.Logf("image N=%d state=%d/%d chain=%d/%d bf=%d/%d", N, si, len(rec.stateLog), ci, len(rec.chainLog), bi, len(rec.bfSeq))
					checkImage(res, cfg, steps, chain, N, rec.preState, rec.preChain, rec.stateLog[:si], rec.chainLog[:ci], rec.postDir, rec.bfSeq, bi,
						len(rec.stateLog), len(rec.chainLog))
				}
			}
		}
		if cfg.Torn {
			// extra, separately labelled probe: a torn record inside one block-file write
			for bi := 0; bi < len(rec.bfSeq); bi++ {
				w := rec.bfSeq[bi]
				if w.post-w.pre < 2 {
					continue
				}
				res.Count("torn_images")
				checkImageTorn(res, cfg, steps, chain, N, rec.preState, rec.preChain, rec.stateLog, rec.chainLog, rec.postDir, rec.bfSeq, bi)
			}
		}
	}
	res.State(len(recs), len(steps) > 10, cfg.Cache)
	for _, rec := range recs {
		res.State("crash-height-class", rec.idx == 0, rec.idx >= 10, len(rec.stateLog), len(rec.chainLog), len(rec.bfSeq))
	}
	res.Nontrivial = res.Counters["crash_images"] >= 4
	res.Shape = res.Log.Digest()
	return res
}

func classify(done, total int) string {
	switch {
	case done == 0:
		return "none"
	case done == total:
		return "all"
	default:
		return "partial"
	}
}

func buildImage(preState, preChain *sim.SimKV, stateLog, chainLog []sim.KVBatch, postDir string, bfSeq []bfWrite, bi int, tornAt int, cache int) (*node, error) {
	x := &node{stateKV: preState.Clone(), chainKV: preChain.Clone(), full: true, cacheN: cache}
	for _, b := range stateLog {
		x.stateKV.ApplyBatch(b)
	}
	for _, b := range chainLog {
		x.chainKV.ApplyBatch(b)
	}
	dirSeq++
	x.dir = filepath.Join(scratchDir(), fmt.Sprintf("c11-img-%d-%d", os.Getpid(), dirSeq))
	if err := copyDir(postDir, x.dir); err != nil {
		return nil, err
	}
	root := filepath.Join(x.dir, "storage", "blockfile")
	for k, w := range bfSeq {
		size := w.post
		if k >= bi {
			size = w.pre
		}
		if k == tornAt {
			size = w.pre + (w.post-w.pre)/2
		}
		if size != w.post {
			if err := os.Truncate(filepath.Join(root, w.file), size); err != nil {
				return nil, err
			}
		}
	}
	return x, nil
}

func checkImage(res *sim.Result, cfg C11Config, steps []HStep, chain []*mBlock, N uint64, preState, preChain *sim.SimKV,
	stateLog, chainLog []sim.KVBatch, postDir string, bfSeq []bfWrite, bi int, nState, nChain int) {
	x, err := buildImage(preState, preChain, stateLog, chainLog, postDir, bfSeq, bi, -1, cfg.Cache)
	if err != nil {
		res.Aborted = "image: " + err.Error()
		return
	}
	defer x.destroy()
	cls := fmt.Sprintf("state=%s,chain=%s,blockfile=%s", classify(len(stateLog), nState), classify(len(chainLog), nChain), classify(bi, len(bfSeq)))
	if len(stateLog) >= 1 && len(stateLog) < nState {
		cls = fmt.Sprintf("state=commit-without-journal-pruning,chain=%s,blockfile=%s", classify(len(chainLog), nChain), classify(bi, len(bfSeq)))
	}
	verifyImage(res, "C11", cls, x, cfg, steps, chain, N)
}

func checkImageTorn(res *sim.Result, cfg C11Config, steps []HStep, chain []*mBlock, N uint64, preState, preChain *sim.SimKV,
	stateLog, chainLog []sim.KVBatch, postDir string, bfSeq []bfWrite, bi int) {
	// stores fully durable or not at all, alternating; the torn write is write #bi
	sl, cl := stateLog, chainLog
	if bi%2 == 1 {
		sl, cl = nil, nil
	}
	x, err := buildImage(preState, preChain, sl, cl, postDir, bfSeq, bi, bi, cfg.Cache)
	if err != nil {
		res.Aborted = "image: " + err.Error()
		return
	}
	defer x.destroy()
	cls := fmt.Sprintf("torn-record,stores=%s", classify(len(sl), len(stateLog)))
	verifyImage(res, "C11", cls, x, cfg, steps, chain, N)
}

// verifyImage reopens the image and checks the statement of C11.
func verifyImage(res *sim.Result, prop, cls string, x *node, cfg C11Config, steps []HStep, chain []*mBlock, N uint64) {
	step := int(N)
	if t := danglingData(x.dir); t != "" {
		// bitxhub-kit's BlockTable.repair never updates contentSize after truncating a data file
		// that is longer than its index says, so NewBlockFile spins forever on such an image
		// (observed: goroutine dump inside repair->truncateBlockFile, 100% CPU, no return).
		// An in-process infinite loop cannot be interrupted, so the image is classified from the
		// file sizes instead of being opened.
		res.Count("images_reopen_hangs")
		res.Violate(prop, "reopen-hangs", step, "blockfile=data-record-without-index-entry",
			"crash while persisting block %d with {%s}: table %q has a data record whose index entry was not written; NewBlockFile never returns on this directory (infinite loop in BlockTable.repair)", N, cls, t)
		return
	}
	var openErr error
	func() {
		defer func() {
			if e := recover(); e != nil {
				openErr = fmt.Errorf("panic: %v", e)
			}
		}()
		openErr = x.open()
	}()
	if openErr != nil {
		res.Count("images_reopen_failed")
		fam := cls
		if v := x.stateKV.Get([]byte("journal-maxHeight")); x.chainKV.Has([]byte("chain-meta")) && (v == nil || string(v) != fmt.Sprint(N)) && chainMetaHeight(x.chainKV) == N {
			// root-cause family: the index store already records block N, the state store does not
			fam = "index-store-ahead-of-state-store"
		}
		res.Violate(prop, "reopen-fails", step, fam, "crash while persisting block %d with {%s}: ledger does not open: %v", N, cls, openErr)
		return
	}
	head := x.lg.GetChainMeta().Height
	if head != N && head != N-1 {
		res.Violate(prop, "wrong-height", step, cls, "crash while persisting block %d with {%s}: ledger opened at height %d", N, cls, head)
		return
	}
	if head == N {
		res.Count("images_recovered_to_new_height")
	} else {
		res.Count("images_recovered_to_previous_height")
	}
	// mutual consistency at head
	if nb, _ := x.bf.Blocks(); nb != head {
		fam := "block-store-behind-index-store"
		if nb > head {
			fam = "block-store-ahead-of-index-store"
		}
		res.Violate(prop, "inconsistent", step, fam, "crash while persisting block %d with {%s}: index store is at height %d but the block store holds %d blocks (the next block append is refused as out of order and the node panics)", N, cls, head, nb)
		return
	}
	if v := x.sl.Version(); v != head {
		res.Violate(prop, "inconsistent", step, cls+",what=state-version", "crash while persisting block %d with {%s}: chain height %d but state version %d", N, cls, head, v)
		return
	}
	if head > 0 {
		blk, err := x.lg.GetBlock(head, true)
		if err != nil {
			res.Violate(prop, "inconsistent", step, cls+",what=head-block-unreadable", "crash while persisting block %d with {%s}: head block %d unreadable: %v", N, cls, head, err)
			return
		}
		if blk.BlockHeader.StateRoot.String() != chain[head-1].root.String() || blk.BlockHash.String() != chain[head-1].hash.String() {
			res.Violate(prop, "inconsistent", step, cls+",what=head-block-differs", "crash while persisting block %d with {%s}: head block %d differs from the executed one", N, cls, head)
			return
		}
	}
	want := ""
	var wantKV [][2]string
	if head > 0 {
		want = chain[head-1].dump
		wantKV = chain[head-1].kvDump
	} else {
		want = newMState().dump()
	}
	if got := dumpVia(x.sl); got != want {
		res.Violate(prop, "inconsistent", step, cls+",what=state-content", "crash while persisting block %d with {%s}: state at recovered height %d differs from a node that never crashed:\n got: %s\nwant: %s", N, cls, head, got, want)
		return
	}
	x.sl.Clear()
	if d := sim.DiffDumps(stateDump(x.stateKV), wantKV); len(d) > 0 {
		res.Violate(prop, "inconsistent", step, cls+",what=state-store", "crash while persisting block %d with {%s}: state store at recovered height %d differs in keys %q", N, cls, head, d)
		return
	}
	// no block below the head is lost; indexes agree
	sub := sim.NewResult()
	checkChain(sub, prop, step, x, chain[:head], nil)
	if len(sub.Violations) > 0 {
		v := sub.Violations[0]
		res.Violate(prop, "inconsistent", step, cls+",what=chain-index:"+v.Oracle, "crash while persisting block %d with {%s}: %s", N, cls, v.Detail)
		return
	}
	// right after the ledger opened the node builds its read-only view ledger on the same state store
	// (internal/app), and it may well be stopped and started once more before it executes anything
	var againErr error
	what := "view-ledger"
	func() {
		defer func() {
			if e := recover(); e != nil {
				againErr = fmt.Errorf("panic: %v", e)
			}
		}()
		if _, againErr = ledger.NewSimpleLedger(theRepo, x.stateKV, nil, quietLogger); againErr != nil {
			return
		}
		what = "second-restart"
		if againErr = x.reopen(); againErr == nil {
			if h2 := x.lg.GetChainMeta().Height; h2 != head {
				againErr = fmt.Errorf("opened at height %d, the first restart had recovered height %d", h2, head)
			} else if got := dumpVia(x.sl); got != want {
				againErr = fmt.Errorf("state differs from the one the first restart had recovered")
			}
			x.sl.Clear()
		}
	}()
	if againErr != nil {
		res.Violate(prop, "reopen-fails", step, cls+",what="+what, "crash while persisting block %d with {%s}: the ledger opened at height %d, but then the %s fails: %v", N, cls, head, strings.ReplaceAll(what, "-", " "), againErr)
		return
	}
	res.Count("images_second_restart_ok")
	// executing the remaining blocks yields the same chain
	var contErr error
	func() {
		defer func() {
			if e := recover(); e != nil {
				contErr = fmt.Errorf("panic: %v", e)
			}
		}()
		mm := newModel()
		for h := int(head); h < len(steps); h++ {
			applyHWrites(x, mm, steps[h].Writes)
			mb := commitBlock(x, steps[h])
			if mb.hash.String() != chain[h].hash.String() {
				contErr = fmt.Errorf("block %d hash %s, never-crashed node %s", mb.h, mb.hash.String()[:14], chain[h].hash.String()[:14])
				return
			}
		}
	}()
	if contErr != nil {
		res.Violate(prop, "continuation-differs", step, cls, "crash while persisting block %d with {%s}: recovered at %d, continuing execution: %v", N, cls, head, contErr)
		return
	}
	res.Count("images_ok")
}

func simplifyC11Config(raw json.RawMessage) []json.RawMessage {
	cfg := C11Config{}
	if json.Unmarshal(raw, &cfg) != nil {
		return nil
	}
	var out []json.RawMessage
	if len(cfg.CrashAt) > 1 {
		for i := range cfg.CrashAt {
			c := cfg
			c.CrashAt = []int{cfg.CrashAt[i]}
			out = append(out, sim.MustJSON(c))
		}
	}
	for i, v := range cfg.CrashAt {
		if v > 0 {
			c := cfg
			c.CrashAt = append([]int(nil), cfg.CrashAt...)
			c.CrashAt[i] = v - 1
			out = append(out, sim.MustJSON(c))
		}
	}
	if cfg.Cache != 0 {
		c := cfg
		c.Cache = 0
		out = append(out, sim.MustJSON(c))
	}
	if cfg.Torn {
		c := cfg
		c.Torn = false
		out = append(out, sim.MustJSON(c))
	}
	return out
}

// danglingData reports a table whose data file is longer than its last index entry says.
func danglingData(dir string) string {
	root := filepath.Join(dir, "storage", "blockfile")
	for _, t := range bfTables {
		idx, err := os.ReadFile(filepath.Join(root, t+".ridx"))
		if err != nil || len(idx) < 6 {
			continue
		}
		n := len(idx) - len(idx)%6
		last := idx[n-6 : n]
		off := int64(last[2])<<24 | int64(last[3])<<16 | int64(last[4])<<8 | int64(last[5])
		st, err := os.Stat(filepath.Join(root, t+".0000.rdat"))
		if err != nil {
			continue
		}
		if st.Size() > off {
			return t
		}
	}
	return ""
}

func chainMetaHeight(kv *sim.SimKV) uint64 {
	b := kv.Get([]byte("chain-meta"))
	if b == nil {
		return 0
	}
	m := &pb.ChainMeta{}
	if m.Unmarshal(b) != nil {
		return 0
	}
	return m.Height
}
