package ledgersim

import (
	"encoding/hex"
	"encoding/json"
	"fmt"
	"github.com/ethereum/go-ethereum/common"
	"math/big"
	"sort"
	"strings"

	"github.com/meshplus/bitxhub/verif/sim"
)

// ---------------------------------------------------------------------------------------------
// C10 (first clause): the state root is a function of (previous root, set of state changes)
//
// A plan is a list of blocks, each a *write set* (one final write per touched key/field). It is
// realised three times on three independent ledgers:
//   A: canonical order, shipped cache, no noise
//   B: same sets through a different history (permuted order, overwritten intermediate writes,
//      reads, snapshot/revert noise, add-vs-set, no-op writes, tiny caches, reopen between blocks)
//      => every block's root must equal A's
//   C: like A but with ONE perturbed element in one block => that block's root must differ

type C10Config struct {
	CacheB       int      `json:"cache_b"`
	Kinds        []string `json:"kinds"`         // variation kinds enabled for realisation B
	PerturbBlock int      `json:"perturb_block"` // index among block steps
	PerturbKind  string   `json:"perturb_kind"`  // value|drop|addkey|balance|nonce|code
	PerturbPick  int      `json:"perturb_pick"`
}

// C10Block is one step: a write set and the seed of its realisation noise.
type C10Block struct {
	Writes []LStep `json:"writes"` // ops: set, del, bal, nonce, code  (one per key/field)
	Noise  uint64  `json:"noise"`
}

var c10Kinds = []string{"order", "junk", "reads", "revert", "revert-account", "addvsset", "noop-state", "noop-account", "reopen", "txend", "pipeline", "selfdestruct"}

func genC10(r *sim.Rand, tier string) *sim.Plan {
	cfg := C10Config{CacheB: []int{0, 1, 2, 3, 8}[r.Intn(5)]}
	for _, k := range c10Kinds {
		p := 0.5
		if k == "noop-account" || k == "revert-account" {
			p = 0.12
		}
		if r.Chance(p) {
			cfg.Kinds = append(cfg.Kinds, k)
		}
	}
	if len(cfg.Kinds) == 0 {
		cfg.Kinds = []string{"order"}
	}
	if hasKind(cfg.Kinds, "pipeline") {
		// blocks are flushed one block ahead of their commit: only with the shipped cache sizes (the cache is
		// the only holder of a flushed block)
		cfg.CacheB = 0
	}
	nb := r.Range(1, 6)
	if tier == "thorough" {
		nb = r.Range(1, 14)
	}
	cfg.PerturbBlock = r.Intn(nb)
	cfg.PerturbKind = []string{"value", "drop", "addkey", "balance", "nonce", "code"}[r.Intn(6)]
	cfg.PerturbPick = r.Intn(64)
	p := &sim.Plan{Config: sim.MustJSON(cfg)}
	vctr := 0
	for b := 0; b < nb; b++ {
		blk := C10Block{Noise: r.Uint64()}
		used := map[string]bool{}
		nw := r.Range(1, 9)
		for i := 0; i < nw; i++ {
			s := LStep{A: r.Intn(len(uniAddrs)), K: r.Intn(len(uniKeys))}
			switch r.Weighted([]int{10, 3, 2, 2, 2}) {
			case 0:
				s.Op = "set"
				vctr++
				s.V = hex.EncodeToString([]byte(fmt.Sprintf("w%d", vctr)))
			case 1:
				s.Op = "del"
			case 2:
				s.Op = "bal"
				s.N = uint64(r.Intn(1000) + 1)
				if r.Chance(0.3) {
					s.N = 0 // emptied: realisation B may do it the way the EVM's SELFDESTRUCT does (kind "selfdestruct")
				}
			case 3:
				s.Op = "nonce"
				s.N = uint64(r.Intn(1000) + 1)
			case 4:
				s.Op = "code"
				vctr++
				s.V = hex.EncodeToString([]byte(fmt.Sprintf("c%d", vctr)))
			}
			id := fmt.Sprintf("%s/%d/%d", s.Op, s.A, s.K)
			if s.Op != "set" && s.Op != "del" {
				id = fmt.Sprintf("%s/%d", s.Op, s.A)
				s.K = 0
			} else {
				id = fmt.Sprintf("st/%d/%d", s.A, s.K)
			}
			if used[id] {
				continue
			}
			used[id] = true
			blk.Writes = append(blk.Writes, s)
		}
		p.Steps = append(p.Steps, sim.MustJSON(blk))
	}
	return p
}

func hasKind(ks []string, k string) bool {
	for _, x := range ks {
		if x == k {
			return true
		}
	}
	return false
}

func applyWrite(n *node, s LStep, useAdd bool) {
	ad := uniAddrs[s.A%len(uniAddrs)]
	if s.Op == "bal" && s.N == 0 && useAdd {
		// (useAdd on a balance write = "the other way of writing the same thing": the self-destruct entry point)
		n.sl.SuisideEVM(common.BytesToAddress(ad.Bytes()))
		return
	}
	switch s.Op {
	case "set":
		if useAdd {
			n.sl.AddState(ad, []byte(uniKeys[s.K%len(uniKeys)]), s.val())
		} else {
			n.sl.SetState(ad, []byte(uniKeys[s.K%len(uniKeys)]), s.val(), nil)
		}
	case "del":
		n.sl.SetState(ad, []byte(uniKeys[s.K%len(uniKeys)]), nil, nil)
	case "bal":
		n.sl.SetBalance(ad, new(big.Int).SetUint64(s.N))
	case "nonce":
		n.sl.SetNonce(ad, s.N)
	case "code":
		n.sl.SetCode(ad, s.val())
	}
}

func applyWriteModel(m *model, s LStep) {
	a := s.A % len(uniAddrs)
	switch s.Op {
	case "set":
		m.set(a, uniKeys[s.K%len(uniKeys)], s.val(), true)
	case "del":
		m.set(a, uniKeys[s.K%len(uniKeys)], nil, true)
	case "bal":
		m.setBal(a, new(big.Int).SetUint64(s.N))
	case "nonce":
		m.setNonce(a, s.N)
	case "code":
		m.setCode(a, s.val())
	}
}

// realiseNoisy applies the write set of one block to n through a history drawn from blk.Noise.
// Every random decision is drawn whether or not its variation kind is enabled, so that a subset
// of kinds replays exactly the same decisions (needed for attributing a mismatch to kinds).
func realiseNoisy(n *node, m *model, blk C10Block, kinds []string, res *sim.Result) {
	r := sim.NewRand(blk.Noise)
	ws := append([]LStep(nil), blk.Writes...)
	pm := r.Perm(len(ws))
	if hasKind(kinds, "order") {
		nw := make([]LStep, len(ws))
		for i, j := range pm {
			nw[i] = ws[j]
		}
		ws = nw
		res.Count("var_order")
	}
	written := map[string]bool{}
	for _, w := range ws {
		if w.Op == "set" || w.Op == "del" {
			written[fmt.Sprintf("%d/%d", w.A%len(uniAddrs), w.K%len(uniKeys))] = true
		}
	}
	jctr := 0
	for _, w := range ws {
		ad := uniAddrs[w.A%len(uniAddrs)]
		doReads, rk, ra, doQ, qp := r.Chance(0.5), r.Intn(len(uniKeys)), r.Intn(len(uniAddrs)), r.Chance(0.3), r.Intn(len(uniPrefixes))
		if hasKind(kinds, "reads") && doReads {
			n.sl.GetState(ad, []byte(uniKeys[rk]))
			n.sl.GetBalance(uniAddrs[ra])
			if doQ {
				n.sl.QueryByPrefix(ad, uniPrefixes[qp])
			}
			res.Count("var_reads")
		}
		doJunk, junkAdd := r.Chance(0.5), r.Chance(0.3)
		if hasKind(kinds, "junk") && doJunk && (w.Op == "set" || w.Op == "del") {
			// an intermediate value that the final write overwrites
			jctr++
			j := []byte(fmt.Sprintf("junk%d", jctr))
			if junkAdd {
				n.sl.AddState(ad, []byte(uniKeys[w.K%len(uniKeys)]), j)
			} else {
				n.sl.SetState(ad, []byte(uniKeys[w.K%len(uniKeys)]), j, nil)
			}
			res.Count("var_junk")
		}
		doRev, nrev := r.Chance(0.4), r.Range(1, 3)
		var revA, revK [3]int
		for q := 0; q < 3; q++ {
			revA[q], revK[q] = r.Intn(len(uniAddrs)), r.Intn(len(uniKeys))
		}
		doRevBal, revBalA, revBal := r.Chance(0.5), r.Intn(len(uniAddrs)), r.Intn(99999)
		if doRev && (hasKind(kinds, "revert") || hasKind(kinds, "revert-account")) {
			// journaled noise that is reverted: must leave no trace
			id := n.sl.Snapshot()
			if hasKind(kinds, "revert") {
				for q := 0; q < nrev; q++ {
					jctr++
					n.sl.SetState(uniAddrs[revA[q]], []byte(uniKeys[revK[q]]), []byte(fmt.Sprintf("rv%d", jctr)), nil)
				}
				res.Count("var_revert")
			}
			if hasKind(kinds, "revert-account") && doRevBal {
				n.sl.SetBalance(uniAddrs[revBalA], big.NewInt(int64(revBal)))
				res.Count("var_revert_account")
			}
			n.sl.RevertToSnapshot(id)
		}
		doNoop, na, nk := r.Chance(0.4), r.Intn(len(uniAddrs)), r.Intn(len(uniKeys))
		if hasKind(kinds, "noop-state") && doNoop {
			// write the current value to a key outside the write set: not a change
			if !written[fmt.Sprintf("%d/%d", na, nk)] {
				cur := m.work[na].st[uniKeys[nk]]
				n.sl.SetState(uniAddrs[na], []byte(uniKeys[nk]), cur, nil)
				res.Count("var_noop_state")
			}
		}
		doNoopA, naa := r.Chance(0.4), r.Intn(len(uniAddrs))
		if hasKind(kinds, "noop-account") && doNoopA {
			n.sl.SetBalance(uniAddrs[naa], new(big.Int).Set(m.work[naa].bal))
			res.Count("var_noop_account")
		}
		doAdd := r.Chance(0.5)
		useAdd := hasKind(kinds, "addvsset") && w.Op == "set" && doAdd
		if useAdd {
			res.Count("var_addvsset")
		}
		// (SELFDESTRUCT runs in a contract's own account, which exists: only accounts holding a balance or a nonce)
		if wa := m.work[w.A%len(uniAddrs)]; hasKind(kinds, "selfdestruct") && w.Op == "bal" && w.N == 0 && doAdd && (wa.bal.Sign() > 0 || wa.nonce > 0) {
			useAdd = true
			res.Count("var_selfdestruct")
		}
		applyWrite(n, w, useAdd)
		applyWriteModel(m, w)
		doTxend := r.Chance(0.4)
		if hasKind(kinds, "txend") && doTxend {
			n.sl.ClearChangerAndRefund()
			res.Count("var_txend")
		}
	}
}

type c10Outcome struct {
	roots []string
	err   string
}

// runRealisation executes all blocks on a fresh state-only ledger.
// mode: "A" canonical, "B" noisy with kinds, "C" canonical with perturbation.
func runC10(p *sim.Plan, cfg C10Config, mode string, kinds []string, res *sim.Result) (out c10Outcome, perturbed bool) {
	cache := 0
	if mode == "B" {
		cache = cfg.CacheB
	}
	pipeline := mode == "B" && hasKind(kinds, "pipeline") && cache == 0
	drain := func(n *node, m *model) {
		for len(n.pending) > 0 {
			n.commitPending()
			m.commitPending()
		}
	}
	n, err := newNode(false, cache)
	if err != nil {
		out.err = err.Error()
		return
	}
	defer n.destroy()
	m := newModel()
	for i := 0; i < 3; i++ {
		n.sl.SetBalance(uniAddrs[i], big.NewInt(int64(100*(i+1))))
		m.setBal(i, big.NewInt(int64(100*(i+1))))
	}
	n.commit()
	m.commit()
	bi := -1
	for _, raw := range p.Steps {
		var blk C10Block
		if json.Unmarshal(raw, &blk) != nil {
			continue
		}
		bi++
		if mode == "B" && hasKind(kinds, "reopen") && blk.Noise%3 == 0 {
			drain(n, m)
			if err := n.reopen(); err != nil {
				out.err = "reopen: " + err.Error()
				return
			}
			res.Count("var_reopen")
		}
		if mode == "C" && bi == cfg.PerturbBlock {
			blk, perturbed = perturb(blk, cfg, m)
		}
		if mode == "B" {
			realiseNoisy(n, m, blk, kinds, res)
		} else {
			for _, w := range blk.Writes {
				applyWrite(n, w, false)
				applyWriteModel(m, w)
			}
		}
		if pipeline {
			// the executor runs one block ahead of persistence; a reader touches the block's keys in between
			root := n.flush()
			m.flush()
			res.Count("var_pipeline")
			if blk.Noise%2 == 0 {
				for _, w := range blk.Writes {
					if w.Op == "set" || w.Op == "del" {
						n.sl.GetState(uniAddrs[w.A], []byte(uniKeys[w.K]))
					} else {
						n.sl.GetBalance(uniAddrs[w.A])
					}
				}
			}
			if len(n.pending) > 1 {
				n.commitPending()
				m.commitPending()
			}
			out.roots = append(out.roots, root.String())
			continue
		}
		root, _ := n.commit()
		m.commit()
		out.roots = append(out.roots, root.String())
	}
	drain(n, m)
	return
}

// perturb changes exactly one element of the block's *effective* change set.
func perturb(blk C10Block, cfg C10Config, m *model) (C10Block, bool) {
	nb := C10Block{Noise: blk.Noise, Writes: append([]LStep(nil), blk.Writes...)}
	// effective writes: those that change the committed state
	var eff []int
	for i, w := range nb.Writes {
		a := w.A % len(uniAddrs)
		switch w.Op {
		case "set":
			if string(m.committed[a].st[uniKeys[w.K%len(uniKeys)]]) != string(w.val()) || m.committed[a].st[uniKeys[w.K%len(uniKeys)]] == nil {
				eff = append(eff, i)
			}
		case "del":
			if m.committed[a].st[uniKeys[w.K%len(uniKeys)]] != nil {
				eff = append(eff, i)
			}
		case "bal":
			if m.committed[a].bal.Cmp(new(big.Int).SetUint64(w.N)) != 0 {
				eff = append(eff, i)
			}
		case "nonce":
			if m.committed[a].nonce != w.N {
				eff = append(eff, i)
			}
		case "code":
			eff = append(eff, i)
		}
	}
	pickEff := func(ops ...string) int {
		var c []int
		for _, i := range eff {
			for _, o := range ops {
				if nb.Writes[i].Op == o {
					c = append(c, i)
				}
			}
		}
		if len(c) == 0 {
			return -1
		}
		return c[cfg.PerturbPick%len(c)]
	}
	switch cfg.PerturbKind {
	case "value":
		i := pickEff("set")
		if i < 0 {
			return nb, false
		}
		nb.Writes[i].V = hex.EncodeToString([]byte(fmt.Sprintf("PERTURBED%d", cfg.PerturbPick)))
		return nb, true
	case "drop":
		i := pickEff("set", "del", "bal", "nonce", "code")
		if i < 0 {
			return nb, false
		}
		nb.Writes = append(nb.Writes[:i], nb.Writes[i+1:]...)
		return nb, true
	case "addkey":
		used := map[string]bool{}
		for _, w := range nb.Writes {
			if w.Op == "set" || w.Op == "del" {
				used[fmt.Sprintf("%d/%d", w.A%len(uniAddrs), w.K%len(uniKeys))] = true
			}
		}
		for off := 0; off < len(uniAddrs)*len(uniKeys); off++ {
			x := (cfg.PerturbPick + off) % (len(uniAddrs) * len(uniKeys))
			a, k := x/len(uniKeys), x%len(uniKeys)
			if !used[fmt.Sprintf("%d/%d", a, k)] {
				nb.Writes = append(nb.Writes, LStep{Op: "set", A: a, K: k, V: hex.EncodeToString([]byte(fmt.Sprintf("ADDED%d", cfg.PerturbPick)))})
				return nb, true
			}
		}
		return nb, false
	case "balance":
		i := pickEff("bal")
		if i < 0 {
			return nb, false
		}
		nb.Writes[i].N += 1000003
		return nb, true
	case "nonce":
		i := pickEff("nonce")
		if i < 0 {
			return nb, false
		}
		nb.Writes[i].N += 1000003
		return nb, true
	case "code":
		i := pickEff("code")
		if i < 0 {
			return nb, false
		}
		b := nb.Writes[i].val()
		b[len(b)-1] ^= 1
		nb.Writes[i].V = hex.EncodeToString(b)
		return nb, true
	}
	return nb, false
}

func execC10(p *sim.Plan, keep bool) *sim.Result {
	res := sim.NewResult()
	res.Log.Keep = keep
	cfg := C10Config{}
	_ = json.Unmarshal(p.Config, &cfg)
	a, _ := runC10(p, cfg, "A", nil, res)
	if a.err != "" {
		res.Aborted = a.err
		return res
	}
	res.Steps = len(a.roots)
	for i, r := range a.roots {
		res.Log.Logf("A block %d root %s", i, r)
	}
	b, _ := runC10(p, cfg, "B", cfg.Kinds, res)
	if b.err != "" {
		res.Violate("C10", "realisation-failed", 0, "", "noisy realisation failed: %s", b.err)
		return res
	}
	for i := range a.roots {
		res.Log.Logf("B block %d root %s", i, b.roots[i])
		if i < len(b.roots) && a.roots[i] != b.roots[i] {
			// attribute: greedy minimal subset of variation kinds (and cache size) that still reproduces it
			mism := func(c C10Config, ks []string) bool {
				scratch := sim.NewResult()
				one, _ := runC10(p, c, "B", ks, scratch)
				return one.err == "" && i < len(one.roots) && one.roots[i] != a.roots[i]
			}
			cur := append([]string(nil), cfg.Kinds...)
			sort.Strings(cur)
			cc := cfg
			if cc.CacheB != 0 {
				c0 := cc
				c0.CacheB = 0
				if mism(c0, cur) {
					cc = c0
				}
			}
			for changed := true; changed; {
				changed = false
				for x := range cur {
					t := append(append([]string(nil), cur[:x]...), cur[x+1:]...)
					if mism(cc, t) {
						cur = t
						changed = true
						break
					}
				}
			}
			kind := strings.Join(cur, "+")
			if cc.CacheB != 0 {
				kind += "+small-cache"
			}
			if kind == "" {
				kind = "none"
			}
			if hasKind(cur, "revert-account") || hasKind(cur, "noop-account") {
				// one family: an account object whose balance was written but ends unchanged
				kind = "account-touched-unchanged"
			}
			res.Violate("C10", "equal-set-different-root", i, kind,
				"block %d: the same write set gave state root %s in canonical order and %s through a different history (kinds=%v cache=%d); minimal reproducing kinds: %s",
				i, a.roots[i][:14], b.roots[i][:14], cfg.Kinds, cfg.CacheB, kind)
			break
		}
	}
	c, did := runC10(p, cfg, "C", nil, res)
	if c.err != "" {
		res.Violate("C10", "realisation-failed", 0, "perturbed", "perturbed realisation failed: %s", c.err)
		return res
	}
	if did {
		res.Count("perturb_" + cfg.PerturbKind)
		j := cfg.PerturbBlock
		res.Log.Logf("C block %d root %s (perturbed %s)", j, c.roots[j], cfg.PerturbKind)
		if c.roots[j] == a.roots[j] {
			res.Violate("C10", "collision", j, cfg.PerturbKind,
				"block %d: changing one element of the change set (%s) left the state root unchanged (%s)", j, cfg.PerturbKind, a.roots[j][:14])
		}
		for i := 0; i < j; i++ {
			if c.roots[i] != a.roots[i] {
				res.Violate("C10", "nondeterministic-root", i, "", "block %d: identical histories gave different roots", i)
			}
		}
	} else {
		res.Count("perturb_not_applicable")
	}
	res.State(len(cfg.Kinds), cfg.CacheB, cfg.PerturbKind, did)
	for _, k := range cfg.Kinds {
		res.State("kind", k, cfg.CacheB > 0)
	}
	res.Nontrivial = len(a.roots) > 0
	res.Shape = res.Log.Digest()
	return res
}

func simplifyC10Config(raw json.RawMessage) []json.RawMessage {
	cfg := C10Config{}
	if json.Unmarshal(raw, &cfg) != nil {
		return nil
	}
	var out []json.RawMessage
	for i := range cfg.Kinds {
		c := cfg
		c.Kinds = append(append([]string(nil), cfg.Kinds[:i]...), cfg.Kinds[i+1:]...)
		out = append(out, sim.MustJSON(c))
	}
	if cfg.CacheB != 0 {
		c := cfg
		c.CacheB = 0
		out = append(out, sim.MustJSON(c))
	}
	return out
}

func simplifyC10Step(raw json.RawMessage) []json.RawMessage {
	var blk C10Block
	if json.Unmarshal(raw, &blk) != nil {
		return nil
	}
	var out []json.RawMessage
	for i := range blk.Writes {
		c := C10Block{Noise: blk.Noise, Writes: append(append([]LStep(nil), blk.Writes[:i]...), blk.Writes[i+1:]...)}
		out = append(out, sim.MustJSON(c))
	}
	return out
}
