package ledgersim

import (
	"bytes"
	"encoding/hex"
	"encoding/json"
	"fmt"
	"github.com/ethereum/go-ethereum/common"
	"math/big"
	"sort"
	"strings"

	"github.com/meshplus/bitxhub-kit/types"
	"github.com/meshplus/bitxhub/verif/sim"
)

// ---------------------------------------------------------------------------------------------
// C13: reads return the latest write through dirty set, cache, database and reopen

type C13Config struct {
	Cache    int  `json:"cache"`    // LRU size of every cache layer; 0 = shipped size
	Pipeline bool `json:"pipeline"` // allow reads between flush and commit (only with large caches)
	NoEmpty  bool `json:"no_empty"` // never write empty values (runs that avoid the known empty-value defect)
	NoQuery  bool `json:"no_query"` // never issue prefix queries over dirty data (runs that avoid the known query defect)
}

func hexv(b []byte) string {
	if len(b) == 0 {
		return "-"
	}
	return hex.EncodeToString(b)
}

func genC13(r *sim.Rand, tier string) *sim.Plan {
	cfg := C13Config{}
	switch r.Intn(6) {
	case 0, 5:
		cfg.Cache = 0
	case 1:
		cfg.Cache = 1
	case 2:
		cfg.Cache = 2
	case 3:
		cfg.Cache = 3
	case 4:
		cfg.Cache = 8
	}
	cfg.NoEmpty = r.Chance(0.6)
	cfg.NoQuery = r.Chance(0.4)
	// reads between flush and commit only with the shipped cache sizes: the cache is the only holder of a flushed
	// block's writes, so an eviction there loses them, but that needs the harness-shrunk sizes to happen
	cfg.Pipeline = cfg.Cache == 0 && r.Chance(0.8)
	n := r.Range(10, 80)
	if tier == "thorough" {
		n = r.Range(10, 200)
	}
	// swarm: per-run op weights
	ops := []string{"set", "add", "del", "get", "bal", "addbal", "nonce", "code", "getbal", "getnonce", "getcode", "query", "snap", "revert", "txend", "commit", "reopen", "evmcreate", "flush"}
	w := []int{12, 4, 5, 14, 3, 2, 2, 2, 3, 2, 3, 8, 4, 4, 4, 5, 2, 2, 0}
	if cfg.Pipeline {
		w[len(w)-1] = 5
	}
	for i := range w {
		if r.Chance(0.15) {
			w[i] = 0
		} else if r.Chance(0.2) {
			w[i] *= 3
		}
	}
	if cfg.NoQuery {
		// queries only right after a commit (no dirty data): generated as "cquery"
		for i, o := range ops {
			if o == "query" {
				w[i] = 0
			}
		}
	}
	vctr := 0
	p := &sim.Plan{Config: sim.MustJSON(cfg)}
	for i := 0; i < n; i++ {
		op := ops[r.Weighted(w)]
		s := LStep{Op: op, A: r.Intn(len(uniAddrs)), K: r.Intn(len(uniKeys))}
		switch op {
		case "set", "add":
			if op == "add" && s.A == 3 {
				s.A = r.Intn(3) // account 3 starts non-existent; see DESIGN C13 (createObject revert)
			}
			vctr++
			s.V = hex.EncodeToString([]byte(fmt.Sprintf("v%d", vctr)))
			if !cfg.NoEmpty && r.Chance(0.08) {
				s.V = "-"
			}
		case "bal", "addbal", "nonce":
			s.N = uint64(r.Intn(1000))
		case "code":
			vctr++
			s.V = hex.EncodeToString([]byte(fmt.Sprintf("code%d", vctr)))
		case "query":
			s.K = r.Intn(len(uniPrefixes))
		case "revert":
			s.N = uint64(r.Intn(4))
		case "commit":
			if cfg.NoQuery && r.Chance(0.5) {
				p.Steps = append(p.Steps, sim.MustJSON(s))
				s = LStep{Op: "query", A: r.Intn(len(uniAddrs)), K: r.Intn(len(uniPrefixes))}
			}
		}
		p.Steps = append(p.Steps, sim.MustJSON(s))
	}
	return p
}

func classifyQuery(m *model, a int, prefix string, want, got [][]byte) string {
	// what kind of mismatch is it?
	{
		ne := func(vs [][]byte) []string {
			var o []string
			for _, v := range vs {
				if len(v) != 0 {
					o = append(o, string(v))
				}
			}
			return o
		}
		if fmt.Sprint(ne(want)) == fmt.Sprint(ne(got)) {
			return "[empty-value]"
		}
	}
	wantSet := map[string]int{}
	for _, v := range want {
		wantSet[string(v)]++
	}
	extraStale, extraNil, extraOther, missing := 0, 0, 0, 0
	gotSet := map[string]int{}
	for _, v := range got {
		gotSet[string(v)]++
	}
	committedVals := map[string]bool{}
	for k, v := range m.committed[a].st {
		if v != nil && len(k) >= len(prefix) && k[:len(prefix)] == prefix {
			committedVals[string(v)] = true
		}
	}
	for v, c := range gotSet {
		if c > wantSet[v] {
			switch {
			case v == "":
				extraNil++
			case committedVals[v]:
				extraStale++
			default:
				extraOther++
			}
		}
	}
	for v, c := range wantSet {
		if c > gotSet[v] {
			missing++
		}
	}
	var parts []string
	if extraStale > 0 {
		parts = append(parts, "stale-committed-value-listed")
	}
	if extraNil > 0 {
		parts = append(parts, "deleted-or-empty-entry-listed")
	}
	if extraOther > 0 {
		parts = append(parts, "foreign-value-listed")
	}
	if missing > 0 {
		parts = append(parts, "live-value-missing")
	}
	sort.Strings(parts)
	return fmt.Sprint(parts)
}

func fmtVals(vs [][]byte) string {
	s := "["
	for i, v := range vs {
		if i > 0 {
			s += " "
		}
		s += fmt.Sprintf("%q", v)
	}
	return s + "]"
}

func execC13(p *sim.Plan, keep bool) *sim.Result {
	res := sim.NewResult()
	res.Log.Keep = keep
	cfg := C13Config{}
	_ = json.Unmarshal(p.Config, &cfg)
	n, err := newNode(false, cfg.Cache)
	if err != nil {
		res.Aborted = err.Error()
		return res
	}
	defer n.destroy()
	m := newModel()
	// setup: accounts 0..2 exist with a balance (block 1)
	for i := 0; i < 3; i++ {
		n.sl.SetBalance(uniAddrs[i], big.NewInt(int64(100*(i+1))))
		m.setBal(i, big.NewInt(int64(100*(i+1))))
	}
	n.commit()
	m.commit()
	dirtySinceCommit := false
	// while a flushed block is not committed its writes live only in the account cache: mismatches in that
	// window get their own discriminator (and a separate one when the harness made the cache tiny)
	gap := func() string {
		if len(n.pending) == 0 {
			return ""
		}
		return "flushed-block-uncommitted"
	}
	// storage keys written since the last flush (they are in the dirty set whatever reverts did afterwards)
	dirtyKeys := map[int]map[string]bool{}
	markDirty := func(a int, k string) {
		if dirtyKeys[a] == nil {
			dirtyKeys[a] = map[string]bool{}
		}
		dirtyKeys[a][k] = true
	}
	drain := func() {
		for len(n.pending) > 0 {
			n.commitPending()
			m.commitPending()
		}
	}
	for i, raw := range p.Steps {
		var s LStep
		if json.Unmarshal(raw, &s) != nil {
			continue
		}
		if s.A < 0 || s.A >= len(uniAddrs) {
			s.A = 0
		}
		ad := uniAddrs[s.A]
		res.Steps++
		key := ""
		if s.K >= 0 && s.K < len(uniKeys) {
			key = uniKeys[s.K]
		}
		switch s.Op {
		case "set":
			v := s.val()
			n.sl.SetState(ad, []byte(key), v, nil)
			m.set(s.A, key, v, true)
			markDirty(s.A, key)
			dirtySinceCommit = true
			res.Log.Logf("%d set A%d %s=%x", i, s.A, key, v)
		case "add":
			v := s.val()
			n.sl.AddState(ad, []byte(key), v)
			m.set(s.A, key, v, true)
			markDirty(s.A, key)
			dirtySinceCommit = true
			res.Log.Logf("%d add A%d %s=%x", i, s.A, key, v)
		case "del":
			n.sl.SetState(ad, []byte(key), nil, nil)
			m.set(s.A, key, nil, true)
			markDirty(s.A, key)
			dirtySinceCommit = true
			res.Log.Logf("%d del A%d %s", i, s.A, key)
		case "get":
			ok, v := n.sl.GetState(ad, []byte(key))
			mv := m.work[s.A].st[key]
			mok := mv != nil
			res.Log.Logf("%d get A%d %s -> %v %x", i, s.A, key, ok, v)
			if ok != mok || !bytes.Equal(v, mv) {
				d := "value"
				if g := gap(); g != "" {
					d = g
					res.Count("probe_mismatch_in_flush_gap")
				}
				if (mok && len(mv) == 0) || (ok && len(v) == 0) {
					// either side is an empty value: same root cause (empty treated as equal to missing at
					// flush/commit, so neither the empty write nor a later delete of it is propagated)
					d = "empty-value"
					res.Count("probe_empty_value_mismatch")
				}
				res.Violate("C13", "get", i, d, "GetState(A%d,%q) = (%v,%q), model (latest write) = (%v,%q); cache=%d", s.A, key, ok, v, mok, mv, cfg.Cache)
				if d != "empty-value" {
					return finishC13(res, n, cfg)
				}
				// known-defect class: resynchronise the model on this key and go on checking everything else
				if ok {
					m.work[s.A].st[key] = v
				} else {
					delete(m.work[s.A].st, key)
				}
			}
		case "bal":
			v := new(big.Int).SetUint64(s.N)
			n.sl.SetBalance(ad, v)
			m.setBal(s.A, v)
			dirtySinceCommit = true
			res.Log.Logf("%d bal A%d=%d", i, s.A, s.N)
		case "addbal":
			v := new(big.Int).SetUint64(s.N)
			n.sl.GetOrCreateAccount(ad).AddBalance(v)
			if v.Sign() != 0 {
				m.setBal(s.A, new(big.Int).Add(m.work[s.A].bal, v))
			}
			dirtySinceCommit = true
			res.Log.Logf("%d addbal A%d+=%d", i, s.A, s.N)
		case "evmcreate":
			// what the EVM does before it runs a constructor or moves value to an address it considers new
			// (CREATE/CREATE2 at a funded address, a transfer to an account that has storage but no record): on an
			// account that exists already it changes nothing, and a revert of the surrounding snapshot must not either
			if c, ok := n.sl.(interface{ CreateEVMAccount(common.Address) }); ok {
				c.CreateEVMAccount(common.BytesToAddress(ad.Bytes()))
				res.Count("evm_account_creations")
			}
			res.Log.Logf("%d evmcreate A%d", i, s.A)
		case "nonce":
			n.sl.SetNonce(ad, s.N)
			m.setNonce(s.A, s.N)
			dirtySinceCommit = true
			res.Log.Logf("%d nonce A%d=%d", i, s.A, s.N)
		case "code":
			c := s.val()
			if len(c) == 0 {
				continue
			}
			n.sl.SetCode(ad, c)
			m.setCode(s.A, c)
			dirtySinceCommit = true
			res.Log.Logf("%d code A%d=%x", i, s.A, c)
		case "getbal":
			v := n.sl.GetBalance(ad)
			res.Log.Logf("%d getbal A%d -> %s", i, s.A, v)
			if v.Cmp(m.work[s.A].bal) != 0 {
				res.Violate("C13", "balance", i, gap(), "GetBalance(A%d) = %s, model = %s; cache=%d", s.A, v, m.work[s.A].bal, cfg.Cache)
				return finishC13(res, n, cfg)
			}
		case "getnonce":
			v := n.sl.GetNonce(ad)
			res.Log.Logf("%d getnonce A%d -> %d", i, s.A, v)
			if v != m.work[s.A].nonce {
				res.Violate("C13", "nonce", i, gap(), "GetNonce(A%d) = %d, model = %d; cache=%d", s.A, v, m.work[s.A].nonce, cfg.Cache)
				return finishC13(res, n, cfg)
			}
		case "getcode":
			v := n.sl.GetCode(ad)
			res.Log.Logf("%d getcode A%d -> %x", i, s.A, v)
			if !bytes.Equal(v, m.work[s.A].code) {
				res.Violate("C13", "code", i, gap(), "GetCode(A%d) = %q, model = %q; cache=%d", s.A, v, m.work[s.A].code, cfg.Cache)
				return finishC13(res, n, cfg)
			}
		case "query":
			if s.K < 0 || s.K >= len(uniPrefixes) {
				s.K = 0
			}
			pre := uniPrefixes[s.K]
			ok, got := n.sl.QueryByPrefix(ad, pre)
			want := m.query(s.A, pre)
			res.Log.Logf("%d query A%d %q -> %v %s", i, s.A, pre, ok, fmtVals(got))
			if dirtySinceCommit {
				res.Count("probe_query_over_dirty")
			} else {
				res.Count("probe_query_over_clean")
			}
			same := len(got) == len(want)
			if same {
				for j := range got {
					if !bytes.Equal(got[j], want[j]) {
						same = false
					}
				}
			}
			if !same || ok != (len(want) != 0) {
				cls := classifyQuery(m, s.A, pre, want, got)
				where := "clean"
				if dirtySinceCommit {
					where = "dirty"
				}
				if g := gap(); g != "" {
					where = g
					// what a query that merges only database and dirty set would answer
					// (an empty value never reaches the database but is listed from the dirty set: C13/query/empty-value)
					view := map[string][]byte{}
					for k, v := range m.committed[s.A].st {
						if len(v) > 0 {
							view[k] = v
						}
					}
					for k := range dirtyKeys[s.A] {
						view[k] = m.work[s.A].st[k]
					}
					var dv [][]byte
					for k, v := range view {
						if strings.HasPrefix(k, pre) && v != nil {
							dv = append(dv, v)
						}
					}
					sort.Slice(dv, func(i, j int) bool { return bytes.Compare(dv[i], dv[j]) < 0 })
					if cls != "[empty-value]" && len(dv) == len(got) {
						eq := true
						for j := range dv {
							eq = eq && bytes.Equal(dv[j], got[j])
						}
						if eq {
							cls = "answers-from-database-and-dirty-set-only"
						}
					}
				}
				discr := where + "/" + cls
				if cls == "[empty-value]" {
					discr = "empty-value"
					res.Count("probe_empty_value_mismatch")
				}
				res.Violate("C13", "query", i, discr, "QueryByPrefix(A%d,%q) = (%v,%s), live values in model = %s; cache=%d", s.A, pre, ok, fmtVals(got), fmtVals(want), cfg.Cache)
			}
		case "snap":
			id := n.sl.(interface{ Snapshot() int }).Snapshot()
			n.snaps = append(n.snaps, id)
			m.snapshot()
			res.Log.Logf("%d snap -> %d", i, id)
		case "revert":
			if len(n.snaps) == 0 {
				continue
			}
			idx := len(n.snaps) - 1 - int(s.N)%len(n.snaps)
			n.sl.(interface{ RevertToSnapshot(int) }).RevertToSnapshot(n.snaps[idx])
			n.snaps = n.snaps[:idx]
			m.revert(idx)
			res.Count("probe_revert")
			if idx < len(n.snaps) {
				res.Count("probe_nested_revert")
			}
			res.Log.Logf("%d revert to snapshot #%d", i, idx)
		case "txend":
			n.sl.ClearChangerAndRefund()
			n.snaps = nil
			m.txend()
			res.Log.Logf("%d txend", i)
		case "flush":
			root := n.flush()
			m.flush()
			dirtyKeys = map[int]map[string]bool{}
			dirtySinceCommit = false
			res.Count("probe_flush_without_commit")
			res.Log.Logf("%d flush (pending=%d) root=%s", i, len(n.pending), root.String()[:10])
		case "commit":
			var root *types.Hash
			if len(n.pending) > 0 {
				// the persist goroutine catches up by one block; the block under execution stays dirty
				root = n.commitPending()
				m.commitPending()
				res.Count("probe_commit_of_flushed_block")
			} else {
				root, _ = n.commit()
				m.commit()
				dirtyKeys = map[int]map[string]bool{}
				dirtySinceCommit = false
			}
			res.Count("probe_commit")
			a, b, c := n.cache.VerifCacheLens()
			if cfg.Cache > 0 && (a >= cfg.Cache || b >= cfg.Cache) {
				res.Count("probe_cache_full")
			}
			_ = c
			res.Log.Logf("%d commit h=%d root=%s", i, n.height, root.String()[:10])
		case "reopen":
			drain()
			if err := n.reopen(); err != nil {
				res.Violate("C13", "reopen", i, "", "reopen failed: %v", err)
				return finishC13(res, n, cfg)
			}
			m.reopen()
			dirtyKeys = map[int]map[string]bool{}
			dirtySinceCommit = false
			res.Count("probe_reopen")
			res.Log.Logf("%d reopen h=%d", i, n.height)
		}
		res.State(s.Op, len(n.snaps) > 0, dirtySinceCommit, cfg.Cache, m.height > 0)
	}
	return finishC13(res, n, cfg)
}

func finishC13(res *sim.Result, n *node, cfg C13Config) *sim.Result {
	res.Nontrivial = res.Counters["probe_commit"] > 0 && res.Steps >= 5
	res.Shape = res.Log.Digest()
	res.Add("kv_reads", int64(n.stateKV.Reads))
	return res
}

func simplifyLStep(raw json.RawMessage) []json.RawMessage {
	var s LStep
	if json.Unmarshal(raw, &s) != nil {
		return nil
	}
	var out []json.RawMessage
	if s.A > 0 {
		t := s
		t.A = 0
		out = append(out, sim.MustJSON(t))
	}
	if s.K > 0 {
		t := s
		t.K = 0
		out = append(out, sim.MustJSON(t))
	}
	if s.N > 0 {
		t := s
		t.N = 0
		out = append(out, sim.MustJSON(t))
	}
	return out
}
