//go:build verif

package mempool

// VerifNonceLocksFree reports whether the nonce cache's locks are free at this instant. The simulator calls
// it from the ledger callback the pool invokes: if the pool holds one of them across the callback, a second
// goroutine cannot interleave there and parking the caller would only block everybody (a sync.Mutex waiter is
// not a durable block for testing/synctest). Injected by /verif through `go test -overlay`.
func VerifNonceLocksFree(p MemPool) bool {
	mpi, ok := p.(*mempoolImpl)
	if !ok || mpi == nil || mpi.txStore == nil || mpi.txStore.nonceCache == nil {
		return false
	}
	nc := mpi.txStore.nonceCache
	if !nc.commitMu.TryLock() {
		return false
	}
	nc.commitMu.Unlock()
	if !nc.pendingMu.TryLock() {
		return false
	}
	nc.pendingMu.Unlock()
	return true
}

// VerifBatchSeqNo reports the height the pool gave to the batch it cut last (read by the simulator at quiescent
// points only, when no goroutine of the node is running).
func VerifBatchSeqNo(p MemPool) uint64 {
	mpi, ok := p.(*mempoolImpl)
	if !ok || mpi == nil {
		return 0
	}
	return mpi.batchSeqNo
}
