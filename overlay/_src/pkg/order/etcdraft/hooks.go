//go:build verif

package etcdraft

import (
	"github.com/meshplus/bitxhub-core/order"
	"github.com/meshplus/bitxhub/pkg/order/mempool"
)

// VerifClose releases the files of a stopped node incarnation (WAL segment locks, the
// applied-index leveldb) so that a simulated cluster does not accumulate descriptors and
// background goroutines of dead incarnations. Injected by /verif through `go test -overlay`.
func VerifClose(o order.Order) {
	n, ok := o.(*Node)
	if !ok || n == nil {
		return
	}
	if n.raftStorage != nil && n.raftStorage.wal != nil {
		_ = n.raftStorage.wal.Close()
	}
	if n.storage != nil {
		_ = n.storage.Close()
	}
}

// VerifRestartState reports, for a node that was constructed but not started yet, the index of the
// snapshot its raft log starts from and the applied index recorded on disk for the last reported block.
func VerifRestartState(o order.Order) (snapshotIndex, recordedApplied uint64) {
	n, ok := o.(*Node)
	if !ok || n == nil {
		return 0, 0
	}
	if n.raftStorage != nil && n.raftStorage.ram != nil {
		if snap, err := n.raftStorage.ram.Snapshot(); err == nil {
			snapshotIndex = snap.Metadata.Index
		}
	}
	if n.storage != nil {
		recordedApplied = n.loadAppliedIndex()
	}
	return
}

// VerifLeaderState reports whether the node regards itself as the leader, whether it is still in the hold-off that
// follows its election (it resets its pool's batch sequence on every Ready until its in-flight entries are applied),
// and the height its pool gave to the batch it cut last. Read by the simulator at quiescent points only.
func VerifLeaderState(o order.Order) (leader, holdOff bool, batchSeq uint64) {
	n, ok := o.(*Node)
	if !ok || n == nil {
		return false, false, 0
	}
	return n.leader == n.id, n.justElected, mempool.VerifBatchSeqNo(n.mempool)
}
