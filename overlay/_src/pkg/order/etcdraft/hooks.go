//go:build verif

package etcdraft

import "github.com/meshplus/bitxhub-core/order"

// VerifClose releases the files of a stopped node incarnation (WAL segment locks, the
// applied-index leveldb) so that a simulated cluster does not accumulate descriptors and
// background goroutines of dead incarnations. Injected by /verif through `go test -overlay`.
func VerifClose(o order.Order) {
	n, ok := o.(*Node)
	if !ok || n == nil {
		return
	}
	if n.raftStorage != nil && n.raftStorage.wal != nil {
		_ = n.raftStorage.wal.Close()
	}
	if n.storage != nil {
		_ = n.storage.Close()
	}
}

// VerifRestartState reports, for a node that was constructed but not started yet, the index of the
// snapshot its raft log starts from and the applied index recorded on disk for the last reported block.
func VerifRestartState(o order.Order) (snapshotIndex, recordedApplied uint64) {
	n, ok := o.(*Node)
	if !ok || n == nil {
		return 0, 0
	}
	if n.raftStorage != nil && n.raftStorage.ram != nil {
		if snap, err := n.raftStorage.ram.Snapshot(); err == nil {
			snapshotIndex = snap.Metadata.Index
		}
	}
	if n.storage != nil {
		recordedApplied = n.loadAppliedIndex()
	}
	return
}
