//go:build verif

package etcdraft

import "github.com/meshplus/bitxhub-core/order"

// VerifClose releases the files of a stopped node incarnation (WAL segment locks, the
// applied-index leveldb) so that a simulated cluster does not accumulate descriptors and
// background goroutines of dead incarnations. Injected by /verif through `go test -overlay`.
func VerifClose(o order.Order) {
	n, ok := o.(*Node)
	if !ok || n == nil {
		return
	}
	if n.raftStorage != nil && n.raftStorage.wal != nil {
		_ = n.raftStorage.wal.Close()
	}
	if n.storage != nil {
		_ = n.storage.Close()
	}
}
