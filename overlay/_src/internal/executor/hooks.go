//go:build verif

package executor

// VerifYieldHook: see the ledger package's hook of the same name; here for processExecuteEvent.
// Injected by /verif through `go test -overlay`; not part of the repository.
var VerifYieldHook func(site string, idx int, recv interface{})

func verifYield(site string, idx int, recv interface{}) {
	if h := VerifYieldHook; h != nil {
		h(site, idx, recv)
	}
}
