//go:build verif

package ledger

import (
	lru "github.com/hashicorp/golang-lru"
)

// VerifNewAccountCacheWithSizes builds an AccountCache with small LRU sizes so that the
// simulator can reach the eviction / miss paths (the shipped sizes are 1Mi entries).
// Injected by /verif through `go test -overlay`; not part of the repository.
func VerifNewAccountCacheWithSizes(inner, stateL1, code int) (*AccountCache, error) {
	a, err := lru.New(inner)
	if err != nil {
		return nil, err
	}
	b, err := lru.New(stateL1)
	if err != nil {
		return nil, err
	}
	c, err := lru.New(code)
	if err != nil {
		return nil, err
	}
	return &AccountCache{innerAccountCache: a, stateCache: b, codeCache: c}, nil
}

// VerifCacheLens reports the current sizes of the three LRU layers (reach probe).
func (ac *AccountCache) VerifCacheLens() (int, int, int) {
	return ac.innerAccountCache.Len(), ac.stateCache.Len(), ac.codeCache.Len()
}

// VerifYieldHook, when installed by an engine, is called at the yield points that /verif's build step
// derives for FlushDirtyData and Commit (see cmd/verifctl/yields.go): the engine lets a concurrent
// account-API reader run there.
var VerifYieldHook func(site string, idx int, recv interface{})

func verifYield(site string, idx int, recv interface{}) {
	if h := VerifYieldHook; h != nil {
		h(site, idx, recv)
	}
}
