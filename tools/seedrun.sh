#!/bin/bash
# seedrun.sh <name> <tier> <prop> [prop...]
# Applies /verif/seeded/<name>/patch.diff to /repo, runs the listed checks, undoes the change, records verdicts.
set -u
name=$1; tier=$2; shift 2
d=/verif/seeded/$name
[ -f "$d/patch.diff" ] || { echo "no patch for $name"; exit 2; }
[ -z "$(git -C /repo status --porcelain)" ] || { echo "/repo not clean"; exit 2; }
git -C /repo apply "$d/patch.diff" || exit 2
trap 'git -C /repo checkout -- . ; git -C /repo clean -fdq' EXIT
mkdir -p "$d/runs"
for p in "$@"; do
  log="$d/runs/$p.$tier.log"
  t0=$(date +%s)
  VERIF_EVIDENCE_DIR=/dev/shm/seed-evidence /verif/check "$p" --tier "$tier" > "$log.full" 2>&1; rc=$?
  t1=$(date +%s)
  grep -E "^(VIOLATION|KNOWN-FINDING|verifctl:|C[0-9][0-9] )" "$log.full" | head -40 > "$log"
  echo "exit=$rc seconds=$((t1-t0))" >> "$log"
  rm -f "$log.full.keep"; tail -60 "$log.full" > "$log.tail"; rm -f "$log.full"
  echo "$name $p $tier exit=$rc $(grep -c '^VIOLATION' "$log") violation lines, $((t1-t0))s"
  grep '^VIOLATION' "$log" | head -3
done
