#!/bin/bash
# seedverify.sh <id> <agentdir> <worktree> [name]
# Confirms a seeded change produced by a sub-agent in its scratch worktree:
#  1. demo passes without the change, 2. demo fails with it, 3. tree builds and the pinned suite passes with it.
# On success stores patch.diff + demo + notes under /verif/seeded/<name>/ (meta.json is written by seedrun.sh).
set -u
export GOFLAGS=-mod=mod GOPROXY=off GOSUMDB=off
id=$1; ad=$2; wt=$3; name=${4:-$id}
demo=$(ls "$ad"/*_test.go | head -1)
[ -f "$ad/patch.diff" ] && [ -n "$demo" ] || { echo "missing patch or demo in $ad"; exit 2; }
pkgrel=$(grep -m1 '^+++ b/' "$ad/patch.diff" | sed 's|^+++ b/||')
# the demo's package dir: where the agent left it in the worktree
demorel=$(cd "$wt" && git status --porcelain | awk '$1=="??"{print $2}' | grep "$(basename "$demo")" | head -1)
[ -n "$demorel" ] || demorel="$(dirname "$pkgrel")/$(basename "$demo")"
demodir=$(dirname "$demorel")
runname=$(grep -o 'func Test[A-Za-z0-9_]*' "$demo" | sed 's/func //' | paste -sd'|')
cd "$wt" || exit 2
git checkout -q -- . ; git clean -fdq
cp "$demo" "$demorel"
GOX="go"; LDF=""
if ! go vet -mod=mod "./$demodir" >/dev/null 2>&1; then :; fi
run_demo() { TMPDIR=$(mktemp -d) go test -mod=mod -vet=off -count=1 -ldflags=-checklinkname=0 -run "$runname" "./$demodir" 2>&1 | tail -15; return ${PIPESTATUS[0]}; }
echo "== demo without the change"; run_demo; rc0=$?
git apply "$ad/patch.diff" || { echo "patch does not apply"; exit 2; }
echo "== demo with the change"; run_demo; rc1=$?
rm -f "$demorel"
echo "== build"; go build -mod=mod -ldflags=-checklinkname=0 ./... ; rcb=$?
echo "== pinned suite with the change"; BASELINE_DIR="$wt" /verif/tools/baseline.sh; rcs=$?
git checkout -q -- . ; git clean -fdq
echo "RESULT id=$id demo_without=$rc0 demo_with=$rc1 build=$rcb suite=$rcs"
if [ $rc0 -eq 0 ] && [ $rc1 -ne 0 ] && [ $rcb -eq 0 ] && [ $rcs -eq 0 ]; then
  mkdir -p /verif/seeded/$name
  cp "$ad/patch.diff" /verif/seeded/$name/patch.diff
  cp "$demo" /verif/seeded/$name/$(basename "$demo").txt
  [ -f "$ad/notes.md" ] && cp "$ad/notes.md" /verif/seeded/$name/notes.md
  echo "$demorel" > /verif/seeded/$name/demo_path.txt
  echo CONFIRMED
  exit 0
fi
echo NOT-CONFIRMED; exit 1
