PN="Trusts the reference pool model as the reading of the statement and testing/synctest as the fake clock; single driver loop, so no interleaving inside the pool is at stake beyond its own internal goroutines (awaited with synctest.Wait); sampling, not proof."
chk("C18","poolsim","exploration",
 "Seeded search over pool operation/fault sequences (arrival orders, conflicting and stale transactions, out-of-order/partial/duplicate commit notifications, commits of unseen transactions, batch-seq resets, fake-clock eviction, restart) on the real mempool; every returned batch checked by a history oracle.",
 PN, "deterministic simulation: seeded op/fault sequences under a fake clock vs reference pool model", "DESIGN.md §5 C18/C19")
chk("C19","poolsim","exploration",
 "Same runs as C18 with a conservation ledger of every admitted transaction checked after every step, the pending-work and pending-nonce reports compared with the model, and a drain-to-empty continuation at the end of every run.",
 PN, "deterministic simulation: seeded op/fault sequences under a fake clock vs conservation model + bounded drain continuation", "DESIGN.md §5 C18/C19")
CN="The block order is given (trivial sequencer); SimKV stands in for leveldb; goroutine interleavings inside the executor and Go map orders are sampled natively per replica rather than PRNG-controlled (a divergence depending on them is detected statistically, its replay re-samples); oracles are written from the statement and read acceptance from receipts; sampling, not proof."
chk("C01","chainsim","exploration",
 "Differential seeded search: 3-4 independent replicas of the real ledger+executor+contracts differing in proof-verification mode, cache sizes and stop/reopen points execute the same seeded block stream; every block's hash, roots, receipts, delivery metadata and state store are compared byte for byte.",
 CN, "deterministic simulation: R replicas with per-replica perturbation (restarts, caches, proof mode) on one seeded block stream, byte-wise differential oracle", "DESIGN.md §5 C01")
chk("C02","chainsim","exploration",
 "Seeded IBTP traffic (valid, duplicate, skipped, zero, huge, old indices; wrong senders; invalid proofs; poor senders failing at the fee stage) on the real node; history oracle over receipts plus counters read through the interchain query on both sides, delivery-set membership and a twin replica for 'rejected changes nothing'.",
 CN, "deterministic simulation: seeded traffic + history oracle + twin-replica no-effect diff", "DESIGN.md §5 C02")
chk("C04","chainsim","exploration",
 "Seeded one-to-one traffic with receipts of all types and timeouts around expiry; a reference status machine from the statement folded over accepted events and heights, compared with GetStatus after every block.",
 CN, "deterministic simulation: seeded histories vs reference status machine", "DESIGN.md §5 C04")
chk("C06","chainsim","exploration",
 "Seeded traffic with T in {0,1,2,3,5,2^62,-1} and receipts before/in/after the expiry block; per-block timeout notification sets and statuses compared with a reference expiry model.",
 CN, "deterministic simulation: seeded histories vs reference expiry model", "DESIGN.md §5 C06")
chk("C07","chainsim","exploration",
 "Twin-replica metamorphic check: for each block one FAILED transaction is replaced on a twin by an empty transaction of the same sender and nonce; state stores must agree except for the sender's and admins' balances (exact fee difference), later receipts and delivery sets must agree; the twin is re-synchronised through the executor's rollback path.",
 CN+" View-execution clause: covered by the view calls the oracles issue after every block (state store compared before/after in C17's check).", "deterministic simulation: twin replica metamorphic diff over seeded block streams", "DESIGN.md §5 C07")
chk("C14","chainsim","exploration",
 "Seeded transfer-heavy block streams over all amount classes, gas prices and admin counts; sum of balances from the raw state store after every block, per-transfer and fee-split accounting on single-transaction blocks.",
 CN, "deterministic simulation: seeded block streams + conservation oracle over the state store", "DESIGN.md §5 C14")
chk("C03","chainsim","exploration",
 "Seeded proof-fault search: appchains bound to Happy / a WASM bit rule / FabricSim, optional relay BitXHub with n validators; proofs valid, refused (plain false or error), absent, hash-mismatched, under-signed; the same IBTPs as plain invocations; validity judged by the harness; invalid => FAILED + twin no-effect; node death and wedges are attributed to the run.",
 CN+" Rule lifecycle changes between IBTPs (update/logout of the master rule) are not generated yet.", "deterministic simulation: seeded proof-fault sequences + twin no-effect diff + process-death attribution", "DESIGN.md §5 C03")
chk("C17","chainsim","exploration",
 "The dispatch surface is enumerated by reflection over the registered contracts (exhaustive, counted in the evidence); roles, argument vectors, audit setting and state histories are sampled; oracles: reserved entry points fail, privileged operations fail for outsiders, refused calls change nothing (twin replica), reads write nothing, no outsider call changes existing interchain counters/records.",
 CN+" No schedule or fault dimension exists for this property: the simulator contributes configuration/state-history variety, the twin-diff oracle and process-death attribution. The classification of methods into reserved/privileged is written from the statement.", "deterministic simulation: reflection-enumerated surface x seeded roles/arguments + twin no-effect diff", "DESIGN.md §5 C17")
chk("C08","chainsim","exploration",
 "Seeded input generation executed on the simulated node: structure/byte-level mutations of transactions of every kind and direct calls of every reflection-enumerated method with typed arbitrary arguments, at any block position; receipts-per-transaction, next height, wedge watchdog and process survival are checked; node deaths are attributed to the run, minimised with one process per candidate and replayed.",
 CN+" The quantifier is over inputs only: no schedule or fault space is claimed; the simulator adds wedge/crash detection, block-position variation and exact replay.", "deterministic simulation used as an input-robustness harness: seeded mutations + reflection-enumerated calls + process-death attribution", "DESIGN.md §5 C08")
chk("C05","chainsim","exploration",
 "Seeded one-to-many traffic (2-4 children over one or two destination chains, any begin/report order, failing child at any position, group timeouts, duplicate/late/undeclared reports, interleaved groups) checked after every block against a reference group model: global and child statuses from the stored group record, roll-back notifications from the block's multi-transaction and timeout sets.",
 CN, "deterministic simulation: seeded group histories vs reference all-or-nothing model", "DESIGN.md §5 C05")
chk("C15","chainsim","exploration",
 "Seeded governance histories (lifecycle operations by right and wrong roles, votes approve/reject/garbage by admins, non-admins, repeated, on finished/unknown proposals; 1-4 administrators; five strategy expressions) with an independent tally of accepted votes compared with GetProposal after every block, strategy re-evaluated by the harness, and finality of concluded proposals.",
 CN+" All generated administrators are genesis (weight-2) administrators, so the super-administrator clause is only exercised in its trivial form; electorate changes while a proposal is open (role freeze/registration) are not generated yet.", "deterministic simulation: seeded governance histories vs independent vote tally", "DESIGN.md §5 C15")
chk("C16","chainsim","exploration",
 "Seeded interleavings of lifecycle operations/votes on appchains and services with IBTP traffic; statuses observed through the contracts' queries after every block and checked against the statement: cause for every status change, absorbing logout, cascade from the appchain to its services, and gating of requests by source/destination status.",
 CN+" Rules, roles and nodes are not cycled through their lifecycles yet (appchains and services are); restarts between blocks (cached vs stored service records) are covered by C01's replicas.", "deterministic simulation: seeded lifecycle/traffic interleavings vs statement-level gating and lifecycle oracle", "DESIGN.md §5 C16")
