PN="Trusts the reference pool model as the reading of the statement and testing/synctest as the fake clock; single driver loop, so no interleaving inside the pool is at stake beyond its own internal goroutines (awaited with synctest.Wait); sampling, not proof."
chk("C18","poolsim","exploration",
 "Seeded search over pool operation/fault sequences (arrival orders, conflicting and stale transactions, out-of-order/partial/duplicate commit notifications, commits of unseen transactions, batch-seq resets, fake-clock eviction, restart) on the real mempool; every returned batch checked by a history oracle.",
 PN, "deterministic simulation: seeded op/fault sequences under a fake clock vs reference pool model", "DESIGN.md §5 C18/C19")
chk("C19","poolsim","exploration",
 "Same runs as C18 with a conservation ledger of every admitted transaction checked after every step, the pending-work and pending-nonce reports compared with the model, and a drain-to-empty continuation at the end of every run.",
 PN, "deterministic simulation: seeded op/fault sequences under a fake clock vs conservation model + bounded drain continuation", "DESIGN.md §5 C18/C19")
