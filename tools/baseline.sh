#!/bin/bash
# Runs the repository's pinned baseline (command of /root/.vp/BASELINE.json) with the verif guard OFF
# (no -tags verif, no overlay) and checks that every stable_pass test passes.
export GOFLAGS=-mod=mod GOPROXY=off GOSUMDB=off
cd "${BASELINE_DIR:-/repo}" || exit 2
out=$(mktemp)
export TMPDIR=$(mktemp -d)
go test -mod=mod -json -vet=off -count=1 -timeout 25m ./... > "$out" 2>/dev/null
python3 - "$out" <<'PY'
import json,sys
passed=set()
for l in open(sys.argv[1]):
    try: e=json.loads(l)
    except Exception: continue
    if e.get('Action')=='pass' and e.get('Test') and '/' not in e['Test']:
        passed.add(e['Package']+'::'+e['Test'])
base=json.load(open('/root/.vp/BASELINE.json'))['stable_pass']
missing=[t for t in base if t not in passed]
print(f"baseline: {len(base)-len(missing)}/{len(base)} stable tests pass")
for m in missing: print("MISSING", m)
sys.exit(1 if missing else 0)
PY
rc=$?
rm -rf "$out" "$TMPDIR"
exit $rc
