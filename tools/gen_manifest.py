#!/usr/bin/env python3
# Regenerates /verif/MANIFEST.json from the table below (kept in one place so the manifest stays valid).
import json
checks=[]
def chk(pid, engine, level, text, note, technique, ref):
    checks.append({"property_id":pid,"quick_cmd":f"./check {pid} --tier quick","thorough_cmd":f"./check {pid} --tier thorough",
      "evidence_file":f"/verif/evidence/{pid}.json","replay_cmd_template":f"./check {pid} --replay {{path}}","engine":engine,
      "level_claimed":{"category":level,"text":text,"design_ref":ref},"level_note":note,"technique":technique})
LN="Trusts SimKV as a faithful stand-in for goleveldb's observable semantics (atomic batches, ordered iteration, value copies) and the reference model as the reading of the statement; a clean batch is sampling evidence, not proof."
chk("C09","ledgersim","exploration",
 "Seeded block/rollback/reopen/re-execute histories on the real chain ledger + block file; after every step every stored height and every index is read back and compared with what was executed, and every lookup of rolled-back data must fail. A quarter of the runs are node-level (the engine dispatches to chainsim): blocks of real transactions produced, rolled back and re-executed by the real block executor; stored hash, parent link, transaction/receipt Merkle roots recomputed from the stored data, lookups and chain meta are checked on a reference node and on a twin that goes through the executor's rollback for every block.",
 LN,
 "deterministic simulation: seeded histories with rollback/reopen faults vs executed-chain model", "DESIGN.md §5 C09")
chk("C10","ledgersim","exploration",
 "Metamorphic seeded search: the same per-block write sets realised through different orders, noise, caches and reopen must give equal roots; one perturbed element must change the root.",
 LN+" Includes histories in which blocks are flushed one ahead of their commit with a reader in between. The tx/receipt-root clause is input sampling (no schedule); the roots are recomputed in C09, their perturbation is not built.",
 "deterministic simulation: metamorphic realisations (order, cache, reopen, revert noise) of seeded write sets", "DESIGN.md §5 C10")
chk("C11","ledgersim","fault_enumeration",
 "For each selected commit of seeded histories every crash image (prefix of state-store batches x prefix of chain-store batches x prefix of block-file writes, as recorded from the running code) is built, reopened, checked and continued; exhaustive per selected commit, histories and commits sampled.",
 LN+" Process-crash semantics (completed writes survive); the blockfile hang is classified from file sizes because an in-process infinite loop cannot be interrupted.",
 "deterministic simulation: exhaustive crash-point enumeration over recorded durable writes per commit", "DESIGN.md §5 C11")
chk("C12","ledgersim","exploration",
 "Seeded histories with rollbacks to every kind of target (in window, zero, beyond window, above head, head), reopen and re-execution on the real ledger; rolled-back state compared with dumps recorded at commit; refused rollbacks must change nothing. A quarter of the runs are node-level (the engine dispatches to chainsim): a twin node goes through the block executor's own rollback + re-execution for every block and must agree with the reference node in block hash, receipts and state store.",
 LN, "deterministic simulation: seeded histories with rollback/reopen faults vs recorded per-height state", "DESIGN.md §5 C12")
chk("C13","ledgersim","exploration",
 "Seeded search over operation/flush/commit/reopen/cache-size histories (reads and queries between flush and commit, several flushed blocks pending) of the real SimpleLedger on a simulated KV disk, every read compared with a map+undo-log reference model; sampling, not proof.",
 LN+" Interleavings inside the ledger are not at stake (single driver loop).",
 "deterministic simulation: seeded op/fault sequences (reopen, cache eviction) vs reference model", "DESIGN.md §5 C13")
EXTRA = []
try:
    exec(open('/verif/tools/manifest_extra.py').read())
except FileNotFoundError:
    pass
props=[json.loads(l)['id'] for l in open('/verif/properties.jsonl')]
claimed={c['property_id'] for c in checks}
engines={}
for c in checks: engines.setdefault(c['engine'],[]).append(c['property_id'])
kinds={"ledgersim":"real internal/ledger on simulated KV disk + tmpfs block files, reference-model oracles, crash-image enumeration",
       "poolsim":"real pkg/order/mempool under a fake clock vs reference pool model",
       "chainsim":"N replicas of real ledger+executor+contracts+proof fed one block stream, differential and model oracles",
       "ordersim":"real etcdraft/solo ordering nodes on a simulated network in one synctest bubble"}
m={"version":1,
 "setup_cmd":"cd /verif && ./setup.sh",
 "hooks":{"guard":"verif","enable":"go1.26.8 test -c -tags verif -overlay <generated overlay.json mapping /verif/overlay/_src/<pkg>/x.go to /repo/<pkg>/zz_verif_x.go, plus build-time variants of /repo's current internal/ledger/state_accessor.go and internal/executor/handle.go with verifYield(...) calls inserted before the top-level statements of FlushDirtyData, Commit and processExecuteEvent (cmd/verifctl/yields.go); nothing guarded is committed to /repo> -ldflags=-checklinkname=0 ./engines/<engine>","baseline_off_cmd":"/verif/tools/baseline.sh","source_commits":[],"add_only":True},
 "engines":[{"name":e,"path":"engines/"+e,"serves_properties":sorted(ps),"kind_free_text":kinds.get(e,"")} for e,ps in sorted(engines.items())],
 "checks":sorted(checks,key=lambda c:c['property_id']),
 "notes":"Hooks are injected at build time with `go test -overlay` (files under overlay/_src, build tag verif); nothing guarded is committed to /repo. Unguarded commits in /repo are 'fix:' repairs of genuine defects listed in known_findings.json. Properties listed under not_applicable with reason 'check not built yet' are planned (DESIGN.md §0), not judged inapplicable.",
 "not_applicable":[{"property_id":p,"reason":"check not built yet in this round (planned, see DESIGN.md §0); not a not-applicable judgement"} for p in props if p not in claimed]}
json.dump(m,open('/verif/MANIFEST.json','w'),indent=1)
print("claimed:",sorted(claimed))
