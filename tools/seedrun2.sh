#!/bin/bash
# seedrun2.sh <name> <tier> <prop> [prop...]
# Like seedrun.sh, but leaves /repo alone: the change is applied to a scratch worktree of /repo's HEAD under /dev/shm
# and the checks are pointed at it with VERIF_REPO. For looking at several seeded changes at once while something else
# builds from /repo; the runs recorded under seeded/<name>/runs/ come from seedrun.sh (the change applied to /repo).
set -u
name=$1; tier=$2; shift 2
d=/verif/seeded/$name
[ -f "$d/patch.diff" ] || { echo "no patch for $name"; exit 2; }
wt=/dev/shm/seedrepo-$name
git -C /repo worktree remove --force "$wt" >/dev/null 2>&1
git -C /repo worktree add --detach "$wt" HEAD >/dev/null 2>&1 || { echo "cannot create $wt"; exit 2; }
trap 'git -C /repo worktree remove --force "$wt" >/dev/null 2>&1; git -C /repo worktree prune' EXIT
git -C "$wt" apply "$d/patch.diff" || exit 2
for p in "$@"; do
  t0=$(date +%s)
  VERIF_REPO="$wt" VERIF_EVIDENCE_DIR=/dev/shm/seed-evidence-$name /verif/check "$p" --tier "$tier" > /dev/shm/seedrun2-$name-$p.log 2>&1; rc=$?
  t1=$(date +%s)
  echo "$name $p $tier exit=$rc $(grep -c '^VIOLATION' /dev/shm/seedrun2-$name-$p.log) violation lines, $((t1-t0))s"
  grep '^VIOLATION' /dev/shm/seedrun2-$name-$p.log | head -3
done
rm -rf /dev/shm/seed-evidence-$name
