#!/usr/bin/env python3
"""Writes /verif/seeded/<id>/meta.json and /verif/seeded/README.md from the recorded check runs."""
import json, os, glob, re
ROOT = '/verif/seeded'
NEEDS = {
 'C01x': ("pkg/proof/proof_pool.go verifyMultiSign: the decoded validator set is cached per trust root and the duplicate-signer bookkeeping deletes from the cached set",
          "three or more validly multi-signed IBTPs of another BitXHub, one replica restarted in between"),
 'C01y': ("internal/executor/contracts/appchain_manager.go checkInfo: a de-duplicated admin list is rebuilt from a Go map",
          "UpdateAppchain by the chain admin with an admin list that names an address twice; two executions of the block compared"),
 'C11x': ("internal/ledger/ledger.go New: the start-up rollback error 'rollback to higher height' is swallowed",
          "a crash with the chain store one block ahead of the state store: the ledger now opens with inconsistent stores instead of refusing"),
 'C11y': ("internal/ledger/simple_ledger.go removeJournalsBeforeBlock: journals pruned by a lexicographic key range (journal-1 .. journal-2 also covers journal-10..12)",
          "a restart or crash around height 12/13, where the first real pruning happens"),
 'C12x': ("internal/executor/handle.go rollbackBlocks: the executor re-anchors on the block below its own head instead of below the replaced height",
          "a block delivered for a height two or more below the executor's head"),
 'C18x': ("pkg/order/etcdraft/node.go publishEntries: the leader too resets its pool's batch sequence number to the height it applies",
          "a leader with two of its batches in flight that generates another batch before the second is applied"),
 'C19x': ("pkg/order/mempool/tx_store.go insertOrUpdateByTtlKey: the old arrival entry is deleted under the new time, so a stale entry stays in the arrival index",
          "a parked transaction superseded by a re-signed one of the same nonce; later transactions admitted at that slot are evicted at once"),
 'C20x': ("pkg/order/etcdraft/node.go publishEntries: the skip rule 'height != lastExec+1' weakened to 'height < lastExec'",
          "a leader change with an in-flight batch of the deposed leader, or a restart between hand-over and recording the applied index"),
 'C20y': ("pkg/order/etcdraft/util.go getSnapshot: the snapshot's height is clamped to the persisted chain height while its index is not",
          "a snapshot taken while the executor lags, served to a replica that is behind the compaction point"),
 'C20z': ("pkg/order/solo/node.go: at a checkpoint report lastExec and the batch sequence are rewound to the reported height",
          "solo ordering, a checkpoint height reported while higher blocks are already handed over"),
 'C01c': ("internal/executor/handle.go processExecuteEvent: i/j slip in the comparator that orders the per-chain timeout roots, so their order is Go's map iteration order",
          "requests of at least two source chains timing out in the same block, and two executions of that block compared"),
 'C02c': ("internal/executor/contracts/interchain.go setDestInterchain: both records read before either is written, so for a service calling itself the receipt counter update is overwritten",
          "a request of a service to itself, accepted, followed by its receipt"),
 'C03c': ("internal/executor/contracts/rule_manager.go Manage: on a rejected master-rule update the proposed rule goes to the old master's status (available) instead of back to bindable; the proof pool takes the first available rule",
          "an appchain whose master rule refuses some proofs, UpdateMasterRule to a rule registered earlier in the list, the proposal rejected, then a proof the master refuses"),
 'C04c': ("internal/executor/contracts/transaction_manager.go setFSM: BEGIN_ROLLBACK + failure receipt ends in FAILURE instead of ROLLBACK",
          "a request that times out and then receives a failure (not a rollback) receipt"),
 'C05c': ("internal/executor/contracts/transaction_manager.go changeMultiTxStatus: children already final keep their status when the group fails by receipt",
          "a group with a child that already reported success, then another child's failure receipt"),
 'C06c': ("internal/executor/executor.go + handle.go: a memory-only set of heights that have a timeout list; receipts only remove from lists of known heights",
          "a node restart between the request and its receipt; the chain then reaches H+T"),
 'C07c': ("internal/executor/handle.go applyTransaction: no revert at the fee stage when gasUsed == GasFailedTx, which equals GasNormalTx",
          "a plain transfer that succeeds and leaves the sender short of the fee"),
 'C08c': ("internal/executor/handle.go applyEthTransaction: the branch for a message rejected by ApplyMessage falls through to code that dereferences the nil result",
          "an Ethereum-format transaction turned down before it runs (balance below gas*price, wrong nonce, gas below intrinsic)"),
 'C09c': ("internal/ledger/chain_ledger_impl.go prepareTransactions: the stored position of a transaction is its rank among the distinct hashes of the block",
          "a block with two transactions of identical hash followed by another transaction"),
 'C10c': ("internal/ledger/account.go getStateJournalAndComputeHash: deleted keys do not enter the hash that feeds the state root",
          "two blocks that differ only in whether (or which) existing key is deleted"),
 'C11c': ("internal/ledger/chain_ledger_impl.go: the chain meta is written on its own before the index batch",
          "a crash after the chain-meta write and before the index batch and the block-file append"),
 'C12c': ("internal/ledger/chain_ledger_impl.go RollbackBlockChain: the new head hash is taken from the parent hash of the old head instead of block target+1",
          "a rollback over two or more blocks to a non-zero target"),
 'C13c': ("internal/ledger/state_accessor.go GetAccount: code looked up in the database before the code cache",
          "an account whose committed code is changed by a block, read between that block's flush and commit"),
 'C14c': ("internal/executor/contracts/role.go handleAuditAdmin: the grant is paid again on an approved re-binding of an audit admin",
          "an audit admin bound to a node, the node logged out, the admin bound to another node, the proposal approved"),
 'C15c': ("internal/repo/repo.go MakeStrategyDecision: t bound to the available instead of the initial electorate",
          "an open proposal whose expression mentions t, an elector frozen or logged out meanwhile, approvals that satisfy the expression only with the smaller t"),
 'C16c': ("internal/executor/contracts/appchain_manager.go UnPauseAppchain: services un-paused whatever status the appchain returns to",
          "an appchain frozen, then UpdateMasterRule on it, the proposal approved"),
 'C17c': ("internal/executor/contracts/service_manager.go UpdateService: the caller check moved behind the no-proposal fast path",
          "a caller that is not the chain's admin updating intro or permits with name and details repeated verbatim"),
 'C18c': ("pkg/order/mempool/mempool.go SetBatchSeqNo: a lower sequence number forgets which transactions are batched",
          "a batch in flight, SetBatchSeqNo with a lower value (re-elected leader), another batch before the commit"),
 'C19c': ("pkg/order/mempool/tx_store.go nonceCache: locks released before the ledger lookup, so check-then-fill of the commit nonce is not atomic",
          "a concurrent pending-nonce query of an uncached account descheduled inside the ledger lookup while that account's transaction is admitted, batched and committed"),
 'C20c': ("pkg/order/syncer/state_syncer.go calcRangeHeight: a counted loop drops trailing fetch windows",
          "a sync span that is not aligned to the fetch size and crosses a window boundary late, e.g. (8,12,5)"),
 'C11b': ("internal/ledger/state_accessor.go Commit: the journal range markers are written in a second batch after the data batch",
          "a crash between the two durable writes of the state commit, before the chain batch of that block"),
 'C12b': ("internal/ledger/state_accessor.go RollbackState: a rollback to height 0 passes the window check whatever the window is",
          "a chain longer than the journal window and a rollback target of exactly 0: the refused rollback has already reverted and deleted the retained journals"),
 'C13b': ("internal/ledger/state_changer.go: same change as C07 (two agents converged): reverting a write whose previous value was nil drops the tombstone",
          "a committed key deleted in the block, written again under a snapshot, the snapshot reverted"),
 'C14b': ("internal/ledger/account.go SetBalance: the undo record stores the block-start balance instead of the balance before the write",
          "an account that already paid in the block, then a transaction of it that writes its balance and is reverted (fee stage failure)"),
 'C15b': ("internal/executor/contracts/role.go updateRoleRelatedProposalInfo: paused proposals are skipped when the electorate changes",
          "a proposal paused by a higher-priority one, an elector frozen/activated meanwhile, the proposal restored and tallied against the stale count"),
 'C16b': ("internal/executor/handle.go applyTx: a service event with unchanged status does not refresh the executor's service cache",
          "a destination service that blocks a source through UpdateService (no status change) while it is cached; then a request from that source (cached vs restarted node differ, too)"),
 'C17b': ("internal/executor/contracts/governance.go Vote: IsAnyAdmin instead of IsAnyAvailableAdmin",
          "an administrator frozen or logged out while an older proposal whose electorate contains it is still open, then its vote on that proposal"),
 'C18b': ("pkg/order/mempool/mempool_impl.go processCommitTransactions: commit nonce may regress and a drained account's pending nonce follows it",
          "two batches of one account committed in swapped order, the account drained, an already committed nonce re-sent"),
 'C19b': ("pkg/order/mempool/mempool_impl.go processCommitTransactions: removed nonces of all accounts merged before cleaning each account's nonce index",
          "one commit touching two accounts, one of which holds a parked tx whose nonce value the other commits; then the gap is filled"),
 'C20b': ("pkg/order/etcdraft/util.go recoverFromSnapshot: synced blocks are accepted from the ledger height instead of lastExec+1",
          "a follower receiving a snapshot while its executor has not yet executed everything it was handed"),
 'C01b': ("internal/ledger/account_cache.go add: deleted keys are evicted from the cache instead of cached as tombstones (the agent chose the same change as C10/C13)",
          "a committed key deleted in block n, touched by a reader (or the next block) between flush and commit of n, then re-set to its old value in n+1; at node level additionally a comparison between replicas with different persist timing"),
 'C02b': ("internal/router/interchain.go classify: accepted transactions are no longer attached to a chain's wrapper when a timeout or multi-tx wrapper already exists for it",
          "a block that carries, for the same chain, an accepted IBTP and a timeout or multi-transaction notification"),
 'C03b': ("pkg/proof/proof_pool.go verifyMultiSign: the validator set of a registered BitXHub is cached and never invalidated on a trust-root update",
          "a relay chain whose trust root is replaced through governance after an IBTP of it was verified, then an IBTP signed only by removed validators"),
 'C04b': ("internal/executor/handle.go setTimeoutList: the invalid/failed filter applies to requests only, so a rejected receipt removes the request from its timeout list",
          "a request with a timeout, a rejected receipt for it before the timeout height, then the timeout height"),
 'C05b': ("internal/executor/contracts/interchain.go addToMultiTxNotifyMap: the source-side notification replaces the ids already stored for that chain in the block",
          "two one-to-many groups of the same source chain failing (or a group's source being another group's destination) in one block"),
 'C06b': ("internal/executor/contracts/transaction_manager.go BeginMultiTXs: a begin-failed later child removes the group from the timeout list of the wrong height",
          "a group with a timeout whose later child begins (failed) in a later block than the first; the chain then reaches the group's expiry"),
 'C07b': ("internal/executor/handle.go setTimeoutList: same change as C04b (two agents converged)",
          "a FAILED transaction carrying a receipt IBTP for a pending request with a timeout"),
 'C08b': ("internal/executor/contracts/interchain.go notifySrcDst: a nil wrapper is stored for the destination of a failed child; applyTx dereferences it outside the VM's recover",
          "a one-to-many group still in BEGIN and an accepted failure receipt for one child whose destination is local"),
 'C09b': ("internal/executor/handle.go processExecuteEvent: the parent hash is read before the executor's rollback",
          "a commit event at or below the executor's height (rollback + re-execution in the same call)"),
 'C10b': ("internal/ledger/state_accessor.go GetAccount: dirtyCode not initialised on the cache-hit path, so a contract account that is only read enters the journal and the root",
          "an account with code loaded through the account cache in a block that does not change it, compared with a history that loads it from the database (reopen) or does not read it"),
 'C01': ("internal/executor/contracts/service_manager.go: the service event is posted before the pause/clear of a chain's services, so the in-memory service cache of a never-restarted node keeps the service as available",
         "an appchain frozen/logged out through governance, a later IBTP from/to one of its services, and a comparison between a replica that never restarted and one reopened in between"),
 'C02': ("internal/executor/contracts/interchain.go: index check skipped when the destination is unavailable",
         "a request to an unavailable (nonexistent / frozen / blocking) destination AND an index that is not counter+1"),
 'C03': ("internal/executor/executor.go verifyProofs: in parallel proof mode the last len(txs)%5 transactions of a block skip proof verification",
         "proof_type=parallel, a block of more than 5 transactions whose count is not a multiple of 5, a bad-proof IBTP in the tail"),
 'C04': ("internal/executor/handle.go removeTimeoutList: only the last id of a multi-id removal is removed",
         "two requests with the same expiry height whose receipts are accepted in the same block before that height; the chain then reaches the height"),
 'C05': ("internal/executor/handle.go: setTimeoutRollback moved before getTimeoutIBTPsMap",
         "a one-to-many group with a timeout, one child already succeeded, another outstanding at the timeout height"),
 'C06': ("internal/executor/handle.go addTimeoutList/writeToStr: a leading comma when the stored list is empty but present",
         "a request whose receipt empties the timeout list of height E, then another request registered for the same E without receipt"),
 'C07': ("internal/ledger/state_changer.go: reverting a write whose previous value was nil drops the dirty entry instead of restoring the tombstone",
         "in one block: a successful tx deletes a committed key, a later tx writes that key and fails"),
 'C08': ("internal/ledger/state_accessor.go GetOrCreateAccount: explicit unlocks instead of defer; a panic in GetAccount(nil) (recovered by the VM) leaves the ledger lock held",
         "a contract call that passes all earlier checks and supplies a hex-valid address of the wrong length (e.g. RegisterDapp(..., \"0x1234\", ...))"),
 'C09': ("internal/ledger/chain_ledger_impl.go RollbackBlockChain: interchain tx count of only the last removed block is subtracted",
         "a rollback over at least two blocks, a removed block above target+1 with interchain counters"),
 'C10': ("internal/ledger/account_cache.go add: deleted keys are evicted from the cache instead of cached as tombstones",
         "a committed key deleted in block N, touched between flush and commit of N (pipelined executor or a reader), then re-written with its old value or deleted again in N+1"),
 'C11': ("internal/ledger/block_journal.go revertJournal: early return for accounts created by the block skips restoring their state keys",
         "a crash after the state batch of block N but before the chain batch, N creating an account and writing state keys under it"),
 'C12': ("internal/ledger/account_cache.go clear: the code cache is not purged on rollback",
         "code v1 committed, changed to v2, rollback to v1's height, a continuation block changing the account but not its code, then a read of the code"),
 'C13': ("internal/ledger/account_cache.go add: deleted keys removed from the cache at flush (same change as C10's)",
         "a committed key deleted in a block, a read of it between FlushDirtyData and Commit"),
 'C14': ("internal/executor/handle.go payAdmins: big.Int aliasing credits every admin fee+remainder",
         "fees not divisible by the number of admins (e.g. a sender whose remaining balance is taken as fee)"),
 'C15': ("internal/executor/contracts/governance.go countVote: the super-admin gate guards approval only",
         "a special proposal, weight-1 admins rejecting until approval is unreachable before any super admin voted"),
 'C16': ("internal/executor/contracts/service_manager.go Manage: the stale 'available' copy of a newly approved service is written back after pauseService",
         "a service registration pending while its appchain gets frozen, then approved"),
 'C17': ("internal/executor/contracts/transaction_manager.go Report: caller check only on the multi-IBTP branch",
         "an outsider calling TransactionManager.Report with the id of an in-flight one-to-one transaction and a legal result"),
 'C18': ("pkg/order/mempool/mempool_impl.go generateBlock: a skipped tx that fills the batch is not marked batched",
         "a tx with nonce n carrying an older timestamp than nonce n-1, the batch filling exactly on the re-added tx, another batch before the commit"),
 'C19': ("pkg/order/mempool/mempool_impl.go RemoveAliveTimeoutTxs: readiness looked up with the wrong key, so promoted txs can be evicted",
         "a tx parked behind a nonce gap, the gap filled later, not batched until it passes the tolerance, then the eviction timer"),
 'C20': ("pkg/order/etcdraft/node.go reportState: records the applied index of the highest handed-over block instead of the reported one",
         "the executor lagging ordering by at least one block when a report is handled, then a crash before the later blocks are executed, then a restart"),
}
rows = []
for d in sorted(os.listdir(ROOT)):
    dd = os.path.join(ROOT, d)
    if not os.path.isdir(dd) or not os.path.exists(dd + '/patch.diff'):
        continue
    prop = d[:3]
    runs = {}
    for f in sorted(glob.glob(dd + '/runs/*.log')):
        name = os.path.basename(f)[:-4]
        chk, tier = name.split('.')
        txt = open(f).read()
        m = re.search(r'exit=(\d+) seconds=(\d+)', txt)
        vio = re.findall(r'^VIOLATION property=\S+ replay=\S*/([^/\s]+)\.json', txt, re.M)
        fps = sorted(set(re.sub(r'-\d+$', '', v) for v in vio))
        runs[name] = {'check': chk, 'tier': tier, 'exit': int(m.group(1)) if m else None, 'seconds': int(m.group(2)) if m else None, 'violations': fps}
    what, needs = NEEDS.get(d, ('', ''))
    demo = [f for f in os.listdir(dd) if f.endswith('_test.go.txt')]
    meta = {
        'property': prop, 'change': what, 'needs_to_manifest': needs,
        'demonstration': {'file': demo[0] if demo else None, 'path_in_repo': open(dd + '/demo_path.txt').read().strip() if os.path.exists(dd + '/demo_path.txt') else None},
        'confirmed_by': 'tools/seedverify.sh in a scratch worktree of /repo: demo passes without the change, fails with it; go build -ldflags=-checklinkname=0 ./... succeeds; pinned suite (tools/baseline.sh) 65/65 with the change',
        'checks_run': 'tools/seedrun.sh: git -C /repo apply patch.diff; ./check <id> --tier <tier>; git -C /repo checkout -- .',
        'results': runs,
        'caught_by': sorted({r['check'] for r in runs.values() if r['exit'] == 1}),
        'missed_by': sorted({r['check'] for r in runs.values() if r['exit'] == 0} - {r['check'] for r in runs.values() if r['exit'] == 1}),
    }
    json.dump(meta, open(dd + '/meta.json', 'w'), indent=1)
    rows.append((d, meta))
with open(ROOT + '/README.md', 'w') as f:
    f.write('# Seeded changes\n\nEach directory holds a change to /repo produced by an independent sub-agent that saw only the property text '
            '(patch.diff), its demonstration (a Go test that fails with the change and passes without it; stored with a .txt suffix), the agent\'s notes '
            'and meta.json. None of them is committed to /repo. Regenerate this file with tools/seedmeta.py.\n\n'
            '| id | change | needs | caught by (tier: fingerprints) | other checks run that stayed silent |\n|---|---|---|---|---|\n')
    for d, m in rows:
        c = []
        for name, r in sorted(m['results'].items()):
            if r['exit'] == 1:
                c.append('%s %s (%ss): %s' % (r['check'], r['tier'], r['seconds'], ', '.join(r['violations'][:3])))
        f.write('| %s | %s | %s | %s | %s |\n' % (d, m['change'], m['needs_to_manifest'], '<br>'.join(c) or '—', ', '.join(m['missed_by']) or '—'))
print(open(ROOT + '/README.md').read()[:300])
