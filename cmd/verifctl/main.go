// verifctl is the controller behind /verif/check: it rebuilds the engine test binary
// from /repo's current working tree (with the verif overlay), fans out to worker
// processes, aggregates their results, matches violations against known_findings.json,
// writes the evidence file and prints VIOLATION / KNOWN-FINDING lines.
//
// exit 0: property held on everything explored (KNOWN-FINDING lines allowed)
// exit 1: new violation (VIOLATION property=<id> replay=<path>)
// exit 2: build / harness trouble (never a verdict)
package main

import (
	"encoding/json"
	"flag"
	"fmt"
	"os"
	"os/exec"
	"path/filepath"
	"regexp"
	"runtime"
	"sort"
	"strconv"
	"strings"
	"sync"
	"time"

	"github.com/meshplus/bitxhub/verif/sim"
)

const verifRoot = "/verif"

// repoRoot is the tree the engines are built from: /repo (what every registered command uses). VERIF_REPO names
// another copy of the repository (a scratch worktree with a seeded change applied) so that several such copies can be
// examined at once without touching /repo; the module file is then rewritten to point the replace directive there.
var repoRoot = func() string {
	if r := os.Getenv("VERIF_REPO"); r != "" {
		return filepath.Clean(r)
	}
	return "/repo"
}()

type tierCfg struct {
	Runs      int     // total runs across workers
	BudgetS   float64 // wall cap per worker
	MinimiseS float64
}

type propCfg struct {
	Engine      string
	Level       string
	Quick       tierCfg
	Thorough    tierCfg
	Rule        string
	Assumptions []string
	Components  map[string]string
}

func die2(f string, a ...any) {
	fmt.Fprintf(os.Stderr, "verifctl: "+f+"\n", a...)
	os.Exit(2)
}

func goEnv() []string {
	env := os.Environ()
	env = append(env, "GOFLAGS=-mod=mod", "GOPROXY=off", "GOSUMDB=off", "GOTOOLCHAIN=local", "CGO_ENABLED=1")
	return env
}

func scratchBase() string {
	if st, err := os.Stat("/dev/shm"); err == nil && st.IsDir() {
		if f, err := os.CreateTemp("/dev/shm", "verif-probe"); err == nil {
			f.Close()
			os.Remove(f.Name())
			return "/dev/shm"
		}
	}
	return os.TempDir()
}

// buildOverlay maps every file under /verif/overlay/_src/<rel>/x.go to /repo/<rel>/zz_verif_x.go.
func buildOverlay(scratch string) (string, int) {
	repl := map[string]string{}
	src := filepath.Join(verifRoot, "overlay", "_src")
	_ = filepath.Walk(src, func(p string, info os.FileInfo, err error) error {
		if err != nil || info.IsDir() || !strings.HasSuffix(p, ".go") {
			return nil
		}
		rel, _ := filepath.Rel(src, p)
		dst := filepath.Join(repoRoot, filepath.Dir(rel), "zz_verif_"+filepath.Base(rel))
		repl[dst] = p
		return nil
	})
	nAccessors := len(repl)
	addYields(scratch, repl)
	b, _ := json.Marshal(map[string]any{"Replace": repl})
	path := filepath.Join(scratch, "overlay.json")
	if err := os.WriteFile(path, b, 0644); err != nil {
		die2("write overlay: %v", err)
	}
	return path, nAccessors
}

var buildMu sync.Mutex

func buildEngine(engine, overlay string) string {
	bin := filepath.Join(verifRoot, "bin", engine+".test")
	_ = os.MkdirAll(filepath.Dir(bin), 0755)
	// serialise concurrent builds of the same binary across check processes
	lock := bin + ".lock"
	lf, err := os.OpenFile(lock, os.O_CREATE|os.O_RDWR, 0644)
	if err == nil {
		defer lf.Close()
		flock(lf)
		defer funlock(lf)
	}
	tmpbin := fmt.Sprintf("%s.%d", bin, os.Getpid())
	args := []string{"test", "-c", "-tags", "verif", "-overlay", overlay, "-ldflags=-checklinkname=0", "-o", tmpbin}
	if repoRoot != "/repo" {
		mod, err := os.ReadFile(filepath.Join(verifRoot, "go.mod"))
		if err != nil {
			die2("go.mod: %v", err)
		}
		alt := filepath.Join(filepath.Dir(overlay), "go.alt.mod")
		mod = []byte(strings.Replace(string(mod), "github.com/meshplus/bitxhub => /repo\n", "github.com/meshplus/bitxhub => "+repoRoot+"\n", 1))
		sum, _ := os.ReadFile(filepath.Join(verifRoot, "go.sum"))
		if os.WriteFile(alt, mod, 0644) != nil || os.WriteFile(strings.TrimSuffix(alt, ".mod")+".sum", sum, 0644) != nil {
			die2("cannot write the alternative module file")
		}
		args = append(args, "-modfile="+alt)
		fmt.Fprintf(os.Stderr, "verifctl: building from %s (VERIF_REPO), not from /repo\n", repoRoot)
	}
	args = append(args, "./engines/"+engine)
	cmd := exec.Command("go1.26.8", args...)
	cmd.Dir = verifRoot
	cmd.Env = goEnv()
	outb, err := cmd.CombinedOutput()
	if err != nil {
		fmt.Fprintf(os.Stderr, "%s\n", outb)
		die2("build of engine %s failed (build trouble is exit 2, never a verdict): %v", engine, err)
	}
	return tmpbin
}

type known struct {
	Findings []struct {
		Property    string `json:"property"`
		Fingerprint string `json:"fingerprint"`
		What        string `json:"what"`
		Replay      string `json:"replay"`
	} `json:"findings"`
	Fixed []json.RawMessage `json:"fixed"`
}

func loadKnown() *known {
	k := &known{}
	b, err := os.ReadFile(filepath.Join(verifRoot, "known_findings.json"))
	if err != nil {
		return k
	}
	if err := json.Unmarshal(b, k); err != nil {
		die2("known_findings.json: %v", err)
	}
	return k
}

func runWorker(bin string, cfg *sim.WorkerCfg, scratch string, gomaxprocs int, timeout time.Duration) (*sim.WorkerOut, string) {
	cfgPath := filepath.Join(scratch, fmt.Sprintf("wcfg-%d.json", cfg.Worker))
	cfg.Out = filepath.Join(scratch, fmt.Sprintf("wout-%d.json", cfg.Worker))
	cfg.Progress = filepath.Join(scratch, fmt.Sprintf("wprog-%d", cfg.Worker))
	_ = os.Remove(cfg.Out) // never read the output of an earlier process of this slot
	b, _ := json.Marshal(cfg)
	if err := os.WriteFile(cfgPath, b, 0644); err != nil {
		return nil, err.Error()
	}
	wscratch := filepath.Join(scratch, fmt.Sprintf("w%d", cfg.Worker))
	_ = os.MkdirAll(wscratch, 0755)
	cmd := exec.Command(bin, "-test.run", "^TestWorker$", "-test.timeout", "0", "-test.count", "1")
	cmd.Dir = wscratch
	cmd.Env = append(os.Environ(), "VERIF_WORKER_CFG="+cfgPath, "VERIF_SCRATCH="+wscratch,
		"GOMAXPROCS="+strconv.Itoa(gomaxprocs),
		// math/rand's Seed is a no-op since Go 1.24 unless this is set; the syncer draws its peers from the global source
		"GODEBUG=randseednop=0")
	logf, _ := os.Create(filepath.Join(scratch, fmt.Sprintf("wlog-%d.txt", cfg.Worker)))
	cmd.Stdout, cmd.Stderr = logf, logf
	if err := cmd.Start(); err != nil {
		return nil, err.Error()
	}
	done := make(chan error, 1)
	go func() { done <- cmd.Wait() }()
	var werr error
	select {
	case werr = <-done:
	case <-time.After(timeout):
		_ = cmd.Process.Kill()
		<-done
		werr = fmt.Errorf("watchdog: worker exceeded %v", timeout)
	}
	logf.Close()
	if d := os.Getenv("VERIF_KEEP_LOGS"); d != "" {
		// development aid: keep the workers' stderr
		if b, err := os.ReadFile(logf.Name()); err == nil {
			_ = os.MkdirAll(d, 0755)
			_ = os.WriteFile(filepath.Join(d, fmt.Sprintf("wlog-%d-%d.txt", cfg.Worker, cfg.StartIter)), b, 0644)
		}
	}
	out := &sim.WorkerOut{}
	ob, rerr := os.ReadFile(cfg.Out)
	if rerr == nil {
		rerr = json.Unmarshal(ob, out)
	}
	if werr != nil {
		tail := tailFile(logf.Name(), 200)
		prog, _ := os.ReadFile(cfg.Progress)
		msg := fmt.Sprintf("worker %d died: %v (announced run: %s)\n%s", cfg.Worker, werr, prog, tail)
		if rerr == nil {
			return out, msg
		}
		return nil, msg
	}
	if rerr != nil {
		return nil, fmt.Sprintf("worker %d produced no output: %v\n%s", cfg.Worker, rerr, tailFile(logf.Name(), 40))
	}
	return out, ""
}

func tailFile(p string, n int) string {
	b, err := os.ReadFile(p)
	if err != nil {
		return ""
	}
	lines := strings.Split(string(b), "\n")
	if len(lines) > n+80 {
		// the reason of a crash is at the top (panic / fatal error / signal line and the first stack), the rest is the
		// dump of all goroutines: keep both ends
		first := 0
		for i, l := range lines[:len(lines)-n] {
			if strings.HasPrefix(l, "fatal error: ") || strings.HasPrefix(l, "panic: ") || strings.HasPrefix(l, "SIG") ||
				strings.HasPrefix(l, "runtime: ") || strings.HasPrefix(l, "thread '") || strings.HasPrefix(l, "signal ") || strings.Contains(l, "failed to") {
				first = i // (stacks printed by recovered panics of the code under test come before)
				break
			}
		}
		if first > 5 {
			first -= 5
		}
		end := first + 80
		if end > len(lines)-n {
			end = len(lines) - n
		}
		lines = append(append(append([]string(nil), lines[first:end]...), "[...]"), lines[len(lines)-n:]...)
	}
	return strings.Join(lines, "\n")
}

func main() {
	if len(os.Args) < 3 {
		die2("usage: verifctl check <id> [--tier quick|thorough] [--replay file] | verifctl selftest <id> [--seeds n]")
	}
	mode, prop := os.Args[1], os.Args[2]
	fs := flag.NewFlagSet("verifctl", flag.ExitOnError)
	tier := fs.String("tier", "", "quick|thorough")
	replay := fs.String("replay", "", "replay file")
	nseeds := fs.Int("seeds", 200, "selftest: seeds")
	runsOverride := fs.Int("runs", 0, "override total runs")
	workersFlag := fs.Int("workers", 0, "override worker count")
	_ = fs.Parse(os.Args[3:])
	if *tier == "" {
		*tier = os.Getenv("VERIF_TIER")
	}
	if *tier == "" {
		*tier = "quick"
	}
	seed := uint64(1)
	if s := os.Getenv("VERIF_SEED"); s != "" {
		v, err := strconv.ParseUint(s, 10, 64)
		if err != nil {
			iv, err2 := strconv.ParseInt(s, 10, 64)
			if err2 != nil {
				die2("bad VERIF_SEED %q", s)
			}
			v = uint64(iv)
		}
		seed = v
	}
	pc, ok := registry[prop]
	if !ok {
		die2("unknown property %q", prop)
	}
	if pc.Engine == "ordersim" {
		chunkRuns = 5
	}
	if pc.Engine == "chainsim" || prop == "C09" || prop == "C12" {
		// the node stack holds native (wasmtime) memory that only the process exit gives back: every WASM instantiation
		// leaves some ten to forty memory mappings behind that no garbage collection releases (measured: DESIGN.md 7.4),
		// and at vm.max_map_count the engine aborts the process ("unable to make memory executable"). Worker processes
		// died after about 350 runs each in long batches, after about 110 with the WASM storage contract of C01/C07.
		chunkRuns = 150
		if prop == "C01" || prop == "C07" {
			chunkRuns = 40
		}
	}
	start := time.Now()
	cleanStaleScratch()
	scratch, err := os.MkdirTemp(scratchBase(), fmt.Sprintf("verif-%s-p%d-", prop, os.Getpid()))
	if err != nil {
		die2("scratch: %v", err)
	}
	defer os.RemoveAll(scratch)
	overlay, nOverlay := buildOverlay(scratch)
	bin := buildEngine(pc.Engine, overlay)
	defer os.Remove(bin)
	exit := func(code int) {
		os.Remove(bin)
		os.RemoveAll(scratch)
		os.Exit(code)
	}

	switch mode {
	case "check":
		if *replay != "" {
			exit(doReplay(bin, prop, *replay, scratch))
		}
		exit(doCheck(bin, prop, pc, *tier, seed, scratch, start, nOverlay, *runsOverride, *workersFlag))
	case "selftest":
		exit(doSelfTest(bin, prop, pc, seed, scratch, *nseeds))
	default:
		die2("unknown mode %q", mode)
	}
}

func doReplay(bin, prop, path, scratch string) int {
	abs, _ := filepath.Abs(path)
	cfg := &sim.WorkerCfg{Prop: prop, Replay: abs, Workers: 1}
	out, msg := runWorker(bin, cfg, scratch, 4, 30*time.Minute)
	if out == nil || out.Replay == nil {
		// the worker died: for a node-crash finding that is the reproduction, if the panic is the same one
		rf := &sim.ReplayFile{}
		if b, err := os.ReadFile(abs); err == nil && json.Unmarshal(b, rf) == nil && strings.Contains(rf.Fingerprint, "/node-crash/") {
			sig := panicSignature(msg)
			fmt.Printf("replay: node process died: %s\n", sig)
			if rf.Fingerprint == prop+"/node-crash/"+sig {
				fmt.Printf("replay: fingerprint=%s reproduced=true\n", rf.Fingerprint)
				fmt.Printf("VIOLATION property=%s replay=%s\n", prop, abs)
				return 1
			}
		}
		fmt.Printf("replay: worker failed: %s\n", msg)
		return 2
	}
	r := out.Replay
	for _, l := range r.Trace {
		fmt.Println("  | " + l)
	}
	fmt.Printf("replay: fingerprint=%s reproduced=%v same_log_digest=%v got=%v\n  detail: %s\n", r.Fingerprint, r.Reproduced, r.SameDigest, r.Got, r.Detail)
	if r.Reproduced {
		fmt.Printf("VIOLATION property=%s replay=%s\n", prop, abs)
		return 1
	}
	return 0
}

func doCheck(bin, prop string, pc propCfg, tier string, seed uint64, scratch string, start time.Time, nOverlay, runsOverride, workersFlag int) int {
	tc := pc.Quick
	if tier == "thorough" {
		tc = pc.Thorough
	}
	if runsOverride > 0 {
		tc.Runs = runsOverride
	}
	kn := loadKnown()
	var knownFPs []string
	knownWhat := map[string]string{}
	exitCode := 0
	replayDir := filepath.Join(verifRoot, "replays", prop, "new")
	// 1. replay the listed findings of this property
	knownReproduced := map[string]bool{}
	knownStale := []string{}
	for i, f := range kn.Findings {
		if f.Property != prop {
			continue
		}
		knownFPs = append(knownFPs, f.Fingerprint)
		knownWhat[f.Fingerprint] = f.What
		if f.Replay == "" {
			continue
		}
		cfg := &sim.WorkerCfg{Prop: prop, Replay: filepath.Join(verifRoot, f.Replay), Workers: 1, Worker: 1000 + i}
		out, msg := runWorker(bin, cfg, scratch, 4, 20*time.Minute)
		if out == nil || out.Replay == nil {
			if strings.Contains(f.Fingerprint, "/node-crash/") && f.Fingerprint == prop+"/node-crash/"+panicSignature(msg) {
				knownReproduced[f.Fingerprint] = true
				continue
			}
			fmt.Fprintf(os.Stderr, "known finding replay trouble: %s\n", msg)
			continue
		}
		if out.Replay.Reproduced {
			knownReproduced[f.Fingerprint] = true
		} else {
			knownStale = append(knownStale, f.Fingerprint)
		}
	}
	// 1b. regression replays of defects that were fixed: a reproduction is a new violation
	var regressionLines []string
	fixedFiles, _ := filepath.Glob(filepath.Join(verifRoot, "replays", prop, "fixed", "*.json"))
	sort.Strings(fixedFiles)
	regressionsReplayed := 0
	for i, f := range fixedFiles {
		cfg := &sim.WorkerCfg{Prop: prop, Replay: f, Workers: 1, Worker: 2000 + i}
		out, msg := runWorker(bin, cfg, scratch, 4, 20*time.Minute)
		if out == nil || out.Replay == nil {
			if sig := panicSignature(msg); sig != "" {
				regressionsReplayed++
				fmt.Printf("violation: node process died while replaying the regression file of a defect recorded as fixed: %s\n", sig)
				regressionLines = append(regressionLines, fmt.Sprintf("VIOLATION property=%s replay=%s", prop, f))
				continue
			}
			fmt.Fprintf(os.Stderr, "regression replay trouble (%s): %s\n", f, msg)
			continue
		}
		regressionsReplayed++
		if out.Replay.Reproduced {
			fmt.Printf("violation: %s reproduced from regression replay (a defect recorded as fixed is back)\n  %s\n", out.Replay.Fingerprint, out.Replay.Detail)
			regressionLines = append(regressionLines, fmt.Sprintf("VIOLATION property=%s replay=%s", prop, f))
		}
	}
	_ = os.RemoveAll(replayDir)
	// 2. exploration
	workers := runtime.NumCPU()
	if workers > 16 {
		workers = 16
	}
	if workersFlag > 0 {
		workers = workersFlag
	}
	if tc.Runs < workers {
		workers = tc.Runs
	}
	if workers < 1 {
		workers = 1
	}
	per := (tc.Runs + workers - 1) / workers
	slotOuts := make([][]*sim.WorkerOut, workers)
	slotCrashes := make([][]crashRec, workers)
	msgs := make([]string, workers)
	var wg sync.WaitGroup
	gmp := []int{1, 4, 16, 2}
	for w := 0; w < workers; w++ {
		wg.Add(1)
		go func(w int) {
			defer wg.Done()
			cfg := sim.WorkerCfg{Prop: prop, Tier: tier, MasterSeed: seed, Worker: w, Workers: workers, MaxRuns: per,
				BudgetS: tc.BudgetS, MinimiseS: tc.MinimiseS, Known: knownFPs, ReplayDir: replayDir}
			slotOuts[w], slotCrashes[w], msgs[w] = runSlot(bin, cfg, scratch, gmp[w%len(gmp)], time.Duration((tc.BudgetS*1.5+tc.MinimiseS*4+120)*float64(time.Second)))
		}(w)
	}
	wg.Wait()
	var outs []*sim.WorkerOut
	for _, so := range slotOuts {
		outs = append(outs, so...)
	}
	// node crashes
	crashByFP := map[string]*crashRec{}
	crashCount := map[string]int{}
	nCrashes := 0
	for _, cs := range slotCrashes {
		for i := range cs {
			c := cs[i]
			nCrashes++
			crashCount[c.fp]++
			if _, ok := crashByFP[c.fp]; !ok {
				crashByFP[c.fp] = &c
			}
		}
	}
	// 3. aggregate
	agg := &sim.WorkerOut{Counters: map[string]int64{}, Violations: map[string]*sim.FoundViolation{}}
	states := map[string]struct{}{}
	shapes := map[string]struct{}{}
	died := 0
	for _, m := range msgs {
		if m != "" {
			died++
			fmt.Fprintf(os.Stderr, "%s\n", m)
		}
	}
	for _, o := range outs {
		if o == nil {
			continue
		}
		agg.Runs += o.Runs
		agg.Steps += o.Steps
		agg.SimNanos += o.SimNanos
		agg.Nontrivial += o.Nontrivial
		for k, v := range o.Counters {
			agg.Counters[k] += v
		}
		for _, s := range o.States {
			states[s] = struct{}{}
		}
		for _, s := range o.Shapes {
			shapes[s] = struct{}{}
		}
		for fp, v := range o.Violations {
			if cur, ok := agg.Violations[fp]; ok {
				cur.Count += v.Count
				if cur.ReplayPath == "" || (v.ReplayPath != "" && v.Steps < cur.Steps) {
					c := cur.Count
					*cur = *v
					cur.Count = c
				}
			} else {
				c := *v
				agg.Violations[fp] = &c
			}
		}
		if len(agg.Samples) < 3 {
			agg.Samples = append(agg.Samples, o.Samples...)
		}
		agg.Aborted = append(agg.Aborted, o.Aborted...)
	}
	agg.Counters["node_crashes"] += int64(nCrashes)
	for fp, c := range crashByFP {
		if !crashOwner(prop) {
			agg.Counters["aborted_runs"] += int64(crashCount[fp])
			if len(agg.Aborted) < 20 {
				agg.Aborted = append(agg.Aborted, fmt.Sprintf("run %d seed %d: node process died (%s) — reported by the checks of C08/C03, counted as aborted here", c.runIdx, c.seed, c.msg))
			}
			continue
		}
		fv := &sim.FoundViolation{Violation: sim.Violation{Property: prop, Oracle: "node-crash", Fingerprint: fp,
			Detail: "the node process died while executing a block: " + c.msg}, Seed: c.seed, Run: c.runIdx, Count: crashCount[fp]}
		if _, isKnown := knownWhat[fp]; !isKnown {
			// fetch the plan of the crashing run, minimise it with one process per candidate, write the replay file
			gcfg := &sim.WorkerCfg{Prop: prop, Tier: tier, MasterSeed: seed, Worker: int(c.runIdx % uint64(workers)), Workers: workers, StartIter: c.iter, GenPlan: true}
			gcfg.Worker = int(c.runIdx) - c.iter*workers
			gout, gmsg := runWorker(bin, gcfg, scratch, 4, 5*time.Minute)
			if gout == nil || len(gout.Samples) == 0 {
				fmt.Fprintf(os.Stderr, "cannot regenerate the crashing plan: %s\n", gmsg)
			} else {
				plan := &sim.Plan{}
				_ = json.Unmarshal(gout.Samples[0], plan)
				ce := &crashEngine{bin: bin, prop: prop, scratch: scratch, sig: c.msg}
				min, execs := sim.Minimise(ce, prop, plan, fp, time.Duration(tc.MinimiseS*float64(time.Second)))
				rf := &sim.ReplayFile{Property: prop, Engine: pc.Engine, Fingerprint: fp, Oracle: "node-crash", Detail: c.tail, Replay: "exact",
					MinimisedFromSteps: len(plan.Steps), MinimiseExecs: execs, Plan: min, Original: plan}
				_ = os.MkdirAll(replayDir, 0755)
				path := filepath.Join(replayDir, fmt.Sprintf("%s-%d.json", sim.SanitizeFP(fp), c.seed))
				b, _ := json.MarshalIndent(rf, "", " ")
				if os.WriteFile(path, b, 0644) == nil {
					fv.ReplayPath = path
				}
				fv.Steps, fv.OrigSteps = len(min.Steps), len(plan.Steps)
			}
		}
		agg.Violations[fp] = fv
	}
	wall := time.Since(start).Seconds()
	// 4. verdict
	newV := 0
	var fps []string
	for fp := range agg.Violations {
		fps = append(fps, fp)
	}
	sort.Strings(fps)
	knownSeen := map[string]bool{}
	for fp := range knownReproduced {
		knownSeen[fp] = true
	}
	var vioLines []string
	for _, fp := range fps {
		v := agg.Violations[fp]
		if _, ok := knownWhat[fp]; ok {
			knownSeen[fp] = true
			continue
		}
		newV++
		fmt.Printf("violation: %s (x%d) seed=%d run=%d steps=%d (from %d)\n  %s\n", fp, v.Count, v.Seed, v.Run, v.Steps, v.OrigSteps, v.Detail)
		vioLines = append(vioLines, fmt.Sprintf("VIOLATION property=%s replay=%s", prop, v.ReplayPath))
	}
	var kfs []string
	for fp := range knownSeen {
		kfs = append(kfs, fp)
	}
	sort.Strings(kfs)
	for _, fp := range kfs {
		fmt.Printf("KNOWN-FINDING: property=%s %s [%s]\n", prop, knownWhat[fp], fp)
	}
	// keep only the selected replay file per fingerprint
	selected := map[string]bool{}
	for _, v := range agg.Violations {
		selected[v.ReplayPath] = true
	}
	if files, _ := filepath.Glob(filepath.Join(replayDir, "*.json")); len(files) > 0 {
		for _, f := range files {
			if !selected[f] {
				os.Remove(f)
			}
		}
	}
	for _, l := range regressionLines {
		fmt.Println(l)
		newV++
	}
	for _, l := range vioLines {
		fmt.Println(l)
	}
	if newV > 0 {
		exitCode = 1
	}
	trouble := ""
	if agg.Runs == 0 {
		trouble = "no run completed"
	} else if died > 0 && exitCode == 0 {
		trouble = fmt.Sprintf("%d worker(s) died", died)
	} else if ab := agg.Counters["aborted_runs"]; ab*5 > int64(agg.Runs) {
		trouble = fmt.Sprintf("%d of %d runs aborted", ab, agg.Runs)
	}
	// 5. evidence
	cov := map[string]any{
		"evaluations":                     agg.Runs,
		"distinct_nontrivial":             len(shapes),
		"rule":                            pc.Rule,
		"samples":                         agg.Samples,
		"nontrivial_runs":                 agg.Nontrivial,
		"steps_executed":                  agg.Steps,
		"simulated_seconds":               float64(agg.SimNanos) / 1e9,
		"distinct_abstract_states":        len(states),
		"runs_per_hour":                   float64(agg.Runs) / wall * 3600,
		"workers":                         workers,
		"counters":                        agg.Counters,
		"components":                      pc.Components,
		"overlay_files":                   nOverlay,
		"known_findings_reproduced":       kfs,
		"known_findings_not_reproduced":   knownStale,
		"aborted_samples":                 agg.Aborted,
		"fixed_defect_regression_replays": regressionsReplayed,
		"exhaustive":                      false,
	}
	if len(agg.Samples) == 0 {
		cov["samples"] = []any{"no sample recorded"}
	}
	ev := map[string]any{
		"property_id": prop, "tier": tier, "seed": int64(seed & 0x7fffffffffffffff), "level": pc.Level,
		"coverage": cov, "assumptions": pc.Assumptions, "wall_s": wall, "violations": newV,
	}
	if trouble != "" {
		ev["trouble"] = trouble
	}
	eb, _ := json.MarshalIndent(ev, "", " ")
	evDir := filepath.Join(verifRoot, "evidence")
	if d := os.Getenv("VERIF_EVIDENCE_DIR"); d != "" {
		evDir = d // runs against a deliberately broken tree (seeded changes) must not overwrite the evidence
	}
	_ = os.MkdirAll(evDir, 0755)
	if err := os.WriteFile(filepath.Join(evDir, prop+".json"), eb, 0644); err != nil {
		die2("write evidence: %v", err)
	}
	fmt.Printf("%s %s: runs=%d nontrivial=%d distinct_shapes=%d states=%d steps=%d sim_s=%.1f wall_s=%.1f new_violations=%d known=%d\n",
		prop, tier, agg.Runs, agg.Nontrivial, len(shapes), len(states), agg.Steps, float64(agg.SimNanos)/1e9, wall, newV, len(kfs))
	if exitCode == 0 && trouble != "" {
		fmt.Fprintf(os.Stderr, "verifctl: harness trouble: %s\n", trouble)
		return 2
	}
	return exitCode
}

func doSelfTest(bin, prop string, pc propCfg, seed uint64, scratch string, nseeds int) int {
	// every run index executed in 2 processes with different GOMAXPROCS and different co-scheduled runs
	workers := 16
	type res struct {
		o   *sim.WorkerOut
		msg string
	}
	passes := [][]int{{1, 4, 16, 2}, {16, 1, 2, 4}, {4, 16, 1, 1}}
	all := make([]map[string]string, len(passes))
	for p, gm := range passes {
		var wg sync.WaitGroup
		outs := make([]res, workers)
		w2 := workers
		if p == 1 {
			w2 = 8 // different partition of run indices over processes
		}
		if p == 2 {
			w2 = 5
		}
		per := (nseeds + w2 - 1) / w2
		for w := 0; w < w2; w++ {
			wg.Add(1)
			go func(w int) {
				defer wg.Done()
				cfg := &sim.WorkerCfg{Prop: prop, Tier: "quick", MasterSeed: seed, Worker: w, Workers: w2, MaxRuns: per, SelfTest: true,
					MinimiseS: 0, Known: []string{"*"}, ReplayDir: filepath.Join(scratch, "replays")}
				o, m := runWorker(bin, cfg, filepath.Join(scratch), gm[w%len(gm)], time.Hour)
				outs[w] = res{o, m}
			}(w)
		}
		wg.Wait()
		all[p] = map[string]string{}
		for _, r := range outs[:w2] {
			if r.msg != "" {
				fmt.Fprintln(os.Stderr, r.msg)
			}
			if r.o == nil {
				continue
			}
			for k, v := range r.o.Digests {
				all[p][k] = v
			}
		}
	}
	mism := 0
	cmp := 0
	for k, v := range all[0] {
		for p := 1; p < len(all); p++ {
			if w, ok := all[p][k]; ok {
				cmp++
				if w != v {
					mism++
					if mism < 10 {
						fmt.Printf("selftest: run %s digests differ between pass 0 and pass %d\n", k, p)
					}
				}
			}
		}
	}
	fmt.Printf("selftest %s: compared=%d mismatches=%d\n", prop, cmp, mism)
	if mism > 0 || cmp == 0 {
		return 2
	}
	return 0
}

// ---------------------------------------------------------------------------------------------
// node crashes: an un-recovered panic in a goroutine of the code under test kills the worker
// process. The slot runner attributes it to the announced run, resumes behind it, and the crash
// is reported as a violation of the properties that own node liveness (C08, C03); for other
// properties the run counts as aborted.

type crashRec struct {
	fp, msg, tail string
	runIdx, seed  uint64
	iter          int
}

var reHex = regexp.MustCompile(`0x[0-9a-fA-F]+`)
var reNum = regexp.MustCompile(`[0-9]+`)

// panicSignature extracts "panic message @ first frame inside the repository" from a stderr tail.
func panicSignature(tail string) string {
	lines := strings.Split(tail, "\n")
	msg := ""
	start := -1
	for i, l := range lines {
		if strings.HasPrefix(l, "panic: ") || strings.HasPrefix(l, "fatal error: ") {
			msg = l
			start = i
			break
		}
	}
	if start < 0 {
		return ""
	}
	frame := ""
	for _, l := range lines[start:] {
		t := strings.TrimSpace(l)
		if strings.HasPrefix(t, "github.com/meshplus/bitxhub/") && !strings.Contains(t, "/verif/") {
			frame = t
			if k := strings.Index(frame, "("); k > 0 && strings.HasSuffix(frame, ")") {
				// drop the argument list
				if j := strings.LastIndex(frame, "("); j > 0 {
					frame = frame[:j]
				}
			}
			break
		}
	}
	msg = reHex.ReplaceAllString(msg, "0x#")
	msg = reNum.ReplaceAllString(msg, "#")
	if len(msg) > 110 {
		msg = msg[:110]
	}
	frame = strings.TrimPrefix(frame, "github.com/meshplus/bitxhub/")
	return msg + " @ " + frame
}

// runSlot runs one worker slot to completion, resuming behind node crashes.
func runSlot(bin string, base sim.WorkerCfg, scratch string, gmp int, timeout time.Duration) (outs []*sim.WorkerOut, crashes []crashRec, trouble string) {
	start := 0
	began := time.Now()
	for attempt := 0; attempt < 4000; attempt++ {
		cfg := base
		cfg.StartIter = start
		if chunkRuns > 0 {
			cfg.EndIter = start + chunkRuns
		}
		if base.BudgetS > 0 {
			cfg.BudgetS = base.BudgetS - time.Since(began).Seconds()
			if cfg.BudgetS <= 1 {
				return
			}
		}
		out, msg := runWorker(bin, &cfg, scratch, gmp, timeout)
		if out != nil {
			outs = append(outs, out)
		}
		if msg == "" {
			if chunkRuns > 0 && cfg.EndIter < base.MaxRuns && out != nil && out.Runs > 0 {
				start = cfg.EndIter // next short-lived process of this slot
				continue
			}
			return
		}
		if strings.Contains(msg, "watchdog:") {
			trouble = msg
			return
		}
		sig := panicSignature(msg)
		prog, _ := os.ReadFile(filepath.Join(scratch, fmt.Sprintf("wprog-%d", base.Worker)))
		var runIdx, seed uint64
		var iter int
		if n, _ := fmt.Sscanf(string(prog), "%d %d %d", &runIdx, &seed, &iter); n != 3 || sig == "" {
			trouble = msg
			return
		}
		crashes = append(crashes, crashRec{fp: base.Prop + "/node-crash/" + sig, msg: sig, tail: msg, runIdx: runIdx, seed: seed, iter: iter})
		start = iter + 1
		if start >= base.MaxRuns {
			return
		}
	}
	trouble = "too many node crashes in one worker slot"
	return
}

// crashEngine lets sim.Minimise shrink a crashing plan by re-executing candidates in fresh processes.
type crashEngine struct {
	bin, prop, scratch, sig string
	n                       int
}

func (c *crashEngine) Name() string                                             { return "crash" }
func (c *crashEngine) Generate(string, *sim.Rand, string) *sim.Plan             { return nil }
func (c *crashEngine) SimplifyStep(string, json.RawMessage) []json.RawMessage   { return nil }
func (c *crashEngine) SimplifyConfig(string, json.RawMessage) []json.RawMessage { return nil }
func (c *crashEngine) Execute(prop string, p *sim.Plan, keep bool) *sim.Result {
	res := sim.NewResult()
	c.n++
	rf := &sim.ReplayFile{Property: prop, Fingerprint: prop + "/node-crash/" + c.sig, Plan: p}
	path := filepath.Join(c.scratch, fmt.Sprintf("crash-cand-%d.json", c.n))
	b, _ := json.Marshal(rf)
	_ = os.WriteFile(path, b, 0644)
	cfg := &sim.WorkerCfg{Prop: prop, Replay: path, Workers: 1, Worker: 5000}
	out, msg := runWorker(c.bin, cfg, c.scratch, 4, 5*time.Minute)
	if out != nil && out.Replay != nil {
		return res // survived
	}
	if panicSignature(msg) == c.sig {
		res.Violate(prop, "node-crash", 0, c.sig, "node process died: %s", c.sig)
		// Violate builds prop/node-crash/sig
	}
	return res
}

// chunkRuns > 0: every worker process executes at most this many runs and is then replaced (engines
// whose dead node incarnations leave goroutines and descriptors behind)
var chunkRuns int

func crashOwner(prop string) bool { return prop == "C08" || prop == "C03" }

// cleanStaleScratch removes scratch directories of controller processes that no longer exist
// (a killed check cannot run its deferred cleanup).
func cleanStaleScratch() {
	ents, err := os.ReadDir(scratchBase())
	if err != nil {
		return
	}
	for _, e := range ents {
		name := e.Name()
		if !e.IsDir() || !strings.HasPrefix(name, "verif-") {
			continue
		}
		pid := 0
		if i := strings.Index(name, "-p"); i >= 0 {
			fmt.Sscanf(name[i+2:], "%d", &pid)
		}
		if pid > 0 {
			if _, err := os.Stat(fmt.Sprintf("/proc/%d", pid)); err == nil {
				continue // its controller is alive
			}
		} else if info, err := e.Info(); err == nil && time.Since(info.ModTime()) < 2*time.Hour {
			continue
		}
		_ = os.RemoveAll(filepath.Join(scratchBase(), name))
	}
}
