package main

import (
	"os"
	"syscall"
)

func flock(f *os.File)   { _ = syscall.Flock(int(f.Fd()), syscall.LOCK_EX) }
func funlock(f *os.File) { _ = syscall.Flock(int(f.Fd()), syscall.LOCK_UN) }
