package main

var ledgerComponents = map[string]string{
	"internal/ledger (SimpleLedger, SimpleAccount, AccountCache, journal, ChainLedgerImpl)": "real",
	"bitxhub-kit blockfile":            "real files on tmpfs scratch",
	"leveldb state/chain stores":       "stub: sim.SimKV (ordered in-memory KV recording every atomic durable write)",
	"executor / contracts / consensus": "not run by this engine",
}

// C09 and C12: three quarters of the runs drive the ledger API with synthetic blocks, one quarter runs the real node stack
var ledgerAndNodeComponents = map[string]string{
	"internal/ledger (SimpleLedger, SimpleAccount, AccountCache, journal, ChainLedgerImpl)": "real",
	"bitxhub-kit blockfile":      "real files on tmpfs scratch",
	"leveldb state/chain stores": "stub: sim.SimKV (ordered in-memory KV recording every atomic durable write)",
	"internal/executor, contracts, boltvm, proof pool (node-level quarter of the runs: blocks produced, rolled back and re-executed by the real block executor)": "real",
	"consensus / ordering": "stub: trivial sequencer (node-level runs) / not run (ledger-level runs)",
}

var registry = map[string]propCfg{
	"C13": {
		Engine: "ledgersim", Level: "exploration",
		Quick:       tierCfg{Runs: 40000, BudgetS: 60, MinimiseS: 20},
		Thorough:    tierCfg{Runs: 4000000, BudgetS: 900, MinimiseS: 120},
		Rule:        "one case = one seeded op sequence (set/add/del/get/balance/nonce/code/query/snapshot/revert/txend/flush/commit/reopen, per-run op weights and LRU sizes 1,2,3,8 or shipped) executed on the real SimpleLedger over SimKV and on a map+undo-log reference model, every read compared; non-trivial = contains at least one commit and >=5 executed steps; distinct = distinct event-log digests",
		Assumptions: []string{"SimKV mimics goleveldb's observable semantics (value copies, empty value reads back non-nil, ordered iteration)", "reads between flush and commit (executor ahead of persistence by one or more blocks) are generated only with the shipped cache sizes: the cache is the only holder of a flushed block, an eviction there would need the harness-shrunk sizes", "AddState on an account object created after a still-open snapshot is not generated (its fate on revert is unspecified)"},
		Components:  ledgerComponents,
	},
	"C10": {
		Engine: "ledgersim", Level: "exploration",
		Quick:       tierCfg{Runs: 20000, BudgetS: 60, MinimiseS: 20},
		Thorough:    tierCfg{Runs: 300000, BudgetS: 900, MinimiseS: 120},
		Rule:        "one case = a seeded list of per-block write sets realised three times on independent real ledgers: canonical; through a different history (permuted order, overwritten intermediate writes, reads, reverted snapshot noise, AddState vs SetState, no-op writes, tx boundaries, LRU sizes 1..8, reopen between blocks, blocks flushed one ahead of their commit with a reader touching the written keys in between) whose roots must equal the canonical ones; and with one perturbed element (value, dropped key, added key, balance, nonce, code byte) whose root must differ; non-trivial = at least one block; distinct = distinct event-log digests (roots of all three realisations)",
		Assumptions: []string{"SHA-256 collisions are not a practical source of false alarms", "the transaction-root / receipt-root clause is a pure function of inputs and is checked by chainsim-based perturbation, see DESIGN.md"},
		Components:  ledgerComponents,
	},
	"C12": {
		Engine: "ledgersim", Level: "exploration",
		Quick:       tierCfg{Runs: 8000, BudgetS: 90, MinimiseS: 30},
		Thorough:    tierCfg{Runs: 100000, BudgetS: 1200, MinimiseS: 180},
		Rule:        "one case = a seeded history on the full real ledger (state store + chain store + block file): blocks of set/add/del/balance/nonce/code/touch writes, rollbacks to head-k, 0, beyond the journal window, above head and to head, reopen, and re-execution of the rolled-back blocks; after every accepted rollback the state read through the getters and the raw state store are compared with what was recorded when that height was committed, re-executed blocks must reproduce roots and hashes, refused rollbacks must leave all stores byte-identical (a refusal is wrong only if the target lies inside the retained window: the last 10 blocks of the highest head reached); one quarter of the cases are node-level: a seeded block stream of real transactions where a twin node executes every block once with one transaction replaced, is handed the real block at the same height (the executor rolls back one block and re-executes) and must then agree with the reference node in block hash, receipts and state store; non-trivial = >=2 blocks and >=1 rollback attempt (ledger-level) / >=3 blocks and >=5 transactions (node-level); distinct = distinct event-log digests",
		Assumptions: []string{"ledger-level runs use synthetic blocks (harness-built headers and transactions)"},
		Components:  ledgerAndNodeComponents,
	},
	"C09": {
		Engine: "ledgersim", Level: "exploration",
		Quick:       tierCfg{Runs: 8000, BudgetS: 90, MinimiseS: 30},
		Thorough:    tierCfg{Runs: 100000, BudgetS: 1200, MinimiseS: 180},
		Rule:        "one case = a seeded history of synthetic blocks (0-4 transactions, receipts, interchain counters), rollbacks, reopens and re-executions on the full real ledger; after every step every height <= head is read back through GetBlock/GetBlockByHash/GetBlockHash/GetTransaction/GetTransactionMeta/GetReceipt/GetInterchainMeta/GetChainMeta and compared with what was executed, and every lookup for a rolled-back block or transaction must fail; one quarter of the cases are node-level: blocks of real transactions produced by the block executor on a reference node and on a twin that goes through the executor's rollback + re-execution for every block; after every block the last three stored blocks of both are read back: stored hash = hash of the header, parent hash = stored hash of block h-1, transaction and receipt roots = Merkle roots recomputed by the harness from the stored transactions and receipts, lookups by hash and by transaction hash, chain meta (height, head hash, cumulative interchain count = sum of the delivery counters of all blocks); non-trivial = >=2 blocks and >=1 rollback attempt (ledger-level) / >=3 blocks and >=5 transactions (node-level); distinct = distinct event-log digests",
		Assumptions: []string{"ledger-level runs use synthetic blocks (harness-built headers, transactions, receipts)", "Merkle roots are recomputed with the same tree construction (cbergoon/merkletree over the hashes in block order; zero hash for an empty list)"},
		Components:  ledgerAndNodeComponents,
	},
	"C11": {
		Engine: "ledgersim", Level: "fault_enumeration",
		Quick:       tierCfg{Runs: 480, BudgetS: 120, MinimiseS: 30},
		Thorough:    tierCfg{Runs: 6000, BudgetS: 1500, MinimiseS: 180},
		Rule:        "one case = a seeded block history (2-16 blocks, so that genesis-like first blocks and journal-pruning heights occur) on the full real ledger; for each selected commit the durable writes are recorded as the code issues them (SimKV batch logs of state and chain store, growth of the 5x2 block-file files) and EVERY crash image prefix(state batches) x prefix(chain batches) x prefix(block-file writes) is built (exhaustive per selected commit), reopened with ledger.New, checked (opens; head in {N-1,N}; head block readable and equal to the executed one; state version, state read through getters and raw state store equal the never-crashed reference at that height; all lower blocks and indexes intact) and continued to the end of the history comparing block hashes; non-trivial = >=4 images; distinct = distinct event-log digests (history + image list)",
		Assumptions: []string{"process-crash semantics: a completed write survives (leveldb is written without sync and the block file is never fsynced, so power loss is out of scope of the statement)", "a leveldb batch is atomic; block-file writes reach the file in issue order", "torn records inside one write are an extra, separately labelled probe (thorough tier)"},
		Components:  ledgerComponents,
	},
	"C18": {
		Engine: "poolsim", Level: "exploration",
		Quick:       tierCfg{Runs: 60000, BudgetS: 90, MinimiseS: 30},
		Thorough:    tierCfg{Runs: 600000, BudgetS: 1200, MinimiseS: 180},
		Rule:        poolRule,
		Assumptions: poolAssumptions, Components: poolComponents,
	},
	"C19": {
		Engine: "poolsim", Level: "exploration",
		Quick:       tierCfg{Runs: 60000, BudgetS: 90, MinimiseS: 30},
		Thorough:    tierCfg{Runs: 600000, BudgetS: 1200, MinimiseS: 180},
		Rule:        poolRule + "; C19 additionally ends every run with the continuation 'generate and commit batches until the pool reports no pending work' and checks that every admitted transaction whose lower nonces are present was batched",
		Assumptions: poolAssumptions, Components: poolComponents,
	},
	"C01": chainProp("one case = a seeded block stream (transfers of every amount class incl. bad signatures, IBTP requests/receipts with valid/duplicate/skipped/zero/huge/old indices, timeouts, invalid proofs, wrong senders, empty blocks; lifecycle operations and votes, requests to services that do not exist or are registered during the run, one-to-many groups, mutated transactions, direct contract calls, Ethereum-format transactions (transfers, rejected-before-execution shapes, failing contract creations), pairs inside one appchain incl. a service calling itself; drawn genesis: 1-4 admins of weight 2 or 1, gas price, audit on/off; blocks cut at random or filled to the sequencer limit) executed on 3-4 independent replicas that differ in proof-verification mode, LRU sizes, stop/reopen points and, on a third of them, a stalled state store with a concurrent reader (every key and account the block changed is read through the read-write ledger while the block is flushed but not committed); after every block block hash, all roots, every marshalled receipt, the delivery metadata and the whole state store are compared byte for byte", 1200, 60000),
	"C02": chainProp("one case = a seeded block stream dominated by IBTP requests/receipts over several ordered service pairs with next/duplicate/skipped/zero/huge/old indices, invalid proofs, wrong senders, destinations that do not exist / are frozen, logged out or registered during the run (lifecycle operations and votes in between) and unrelated transfers, audit on/off; a history oracle over receipts (accepted := receipt SUCCESS) checks index order, exactly-once acceptance, counters returned by the interchain query on both sides, delivery-set membership both in the block metadata and in what the real internal/router hands to each chain's pier for that height, and (twin replica) that rejected IBTPs change nothing", 4000, 80000),
	"C03": chainProp("one case = a seeded block stream of IBTPs against appchains bound to a drawn master rule (Happy, a WASM rule accepting iff proof[0]&1, FabricSim with garbage proofs) and, optionally, IBTPs relayed from another BitXHub with n in {1,3,4,7} registered validators signed by 0..n+1 distinct/duplicate/unregistered keys, the validator set being replaced through governance during some runs (the set in force is read back after every block); in half of the runs the rule lifecycle runs too (a further rule registered, the master rule updated through governance with an approving or rejecting vote, rules logged out; the master rule in force is read back after every block and proofs judged in a block that changed it get no verdict); proofs valid, refused by the rule (plain false or error), absent or hash-mismatched; the same IBTPs also submitted as plain invocations of HandleIBTPData/HandleIBTP by outsiders, chain admins and governance admins; the harness judges validity itself (hash matches and rule predicate by construction, or distinct registered signers > (n-1)/3): invalid => receipt FAILED and (twin replica) no state change, a plain invocation never processes an IBTP, and verification never kills the node (worker death is attributed to the run)", 800, 80000),
	"C15": chainProp("one case = a seeded block stream of governance operations (freeze/activate/logout of appchains and services by the permitted and by wrong roles), votes (approve/reject/garbage; by every administrator, by non-administrators, repeated, on open, finished and unknown proposals) and IBTP traffic, under 1-4 administrators (admin 0 a super administrator, the others of weight 2 or 1) and a drawn strategy expression (a > 0.5*t, a >= t, a >= 1, a - r >= 2, a >= 0.75*t); an independent tally of the accepted votes is compared with GetProposal after every block: one counted vote per administrator, no vote by non-administrators / on finished proposals / with garbage, approved => the recorded expression holds for the distinct approvers (evaluated by the harness with govaluate against the initial or the available electorate), rejected by tally => approval unreachable, special proposals need a super administrator's vote, and a concluded proposal record never changes again", 8000, 80000),
	"C16": chainProp("one case = a seeded block stream interleaving lifecycle operations (freeze/activate/logout, registration of a further service per chain during the run) and votes on appchains and services with IBTP requests/receipts before, during and after each transition; after every block the status of every appchain and service is read through GetAppchain/GetServiceInfo and checked: a status changes only in a block containing a successful operation on the object, a concluding vote on it or an operation on its appchain; forbidden is absorbing; a frozen or logged-out appchain has no usable service; in blocks without governance transactions a request from a service whose status is frozen/forbidden/pause/registering/unavailable or that is not registered is never accepted and one to such a destination is never recorded for execution (rejected or begin-failed)", 6000, 80000),
	"C17": chainProp("one case = a seeded block stream of direct invocations of contract methods, the dispatch surface being enumerated by reflection over the contracts the executor registered (every exported method incl. methods promoted from the embedded stub; counted in the evidence), called by an outsider, the chain's admin, another chain's admin, a governance admin and the node account, with arguments typed by the method signature and drawn from the run's live identifiers and garbage, audit on/off, interleaved with IBTP traffic; oracles: methods the statement reserves for contract-to-contract use must fail, chain-admin/governance-admin operations must fail for an outsider, and (twin replica, for failed and successful calls alike) refused calls change nothing, read methods write nothing, and no outsider call changes existing interchain counters or records", 6000, 80000),
	"C04": chainProp("one case = a seeded block stream of one-to-one IBTP traffic with receipts success/failure/rollback, timeouts 0..5 blocks, receipts before, in and after the expiry block and after final states, empty blocks; a reference status machine written from the statement is folded over the accepted events and block heights and compared with GetStatus after every block", 4000, 80000),
	"C05": chainProp("one case = a seeded block stream with one-to-many groups of 2-4 children declared over one or two destination chains (3 appchains), children begun and reported in any order, with success/failure/rollback receipts, group timeouts 0/2/3/5, duplicate and late child messages, several groups interleaved and one-to-one traffic in between; a reference group model from the statement is compared after every block with the stored group record (global and child statuses), with the block's multi-transaction and timeout notification sets (missing and spurious entries) and with what the real internal/router hands to each chain's pier", 4000, 80000),
	"C06": chainProp("one case = a seeded block stream of one-to-one IBTP traffic with timeouts T in {0,1,2,3,5,2^62,-1} and receipts around H+T; one-to-many groups with timeouts on a disjoint set of source services; after every block the per-chain timeout notification sets (block metadata and what the real internal/router hands to the piers) and the statuses are compared with a reference expiry model, groups as a whole with the group model", 4000, 80000),
	"C07": chainProp("one case = a seeded mixed block stream; for every block one FAILED transaction (rotating) is replaced on a twin replica by an empty transaction of the same sender and nonce and the two resulting state stores are compared key by key (only the sender's and the admins' balances may differ, by exactly the fee difference); later receipts must be equal and the failed transaction must not appear in the delivery set; the twin is then brought to the real block through the executor's rollback path", 4000, 80000),
	"C08": chainProp("one case = a seeded block stream of (a) structure- and byte-level mutations of well-formed transactions (nil/junk/truncated/oversized payloads, unknown transaction and VM types, nil or unknown destination, unknown methods, malformed service and IBTP identifiers, extreme indices and timeouts, junk IBTP types, mismatched or empty groups, junk proofs, junk or truncated WASM modules) and (b) direct calls of every reflection-enumerated contract method with typed arbitrary argument vectors (incl. wrong counts and types) and, for 15 multi-argument governance operations, argument vectors that pass the entry checks with exactly one argument perturbed (near-miss addresses, types, expressions), by all roles, at any block position, mixed with valid traffic one-to-many groups (begin, success/failure/rollback receipts) and Ethereum-format transactions (incl. ones the EVM turns down before they run), some chains bound to WASM/FabricSim rules; oracle: one receipt per transaction in order, next height, an executed event within the watchdog (wedge), and the worker process survives (an un-recovered panic in a node goroutine kills it; the controller attributes the death to the announced run, resumes behind it and minimises the plan with one process per candidate)", 800, 80000),
	"C14": chainProp("one case = a seeded block stream with, in 40% of the runs, registrations of new governance administrators and the audit-administrator cycle (two audit nodes, an audit administrator bound to one, that node logged out, the administrator bound to the other; every operation approved by all administrators), dominated by transfers (0, 1, small, exact balance, balance+1, 2^256, non-numeric, negative; self transfers; to admins and contract-less accounts; bad signatures; gas price 0/1/50000; 1-4 admins) with single-transaction blocks mixed in; after every block the sum of all balances in the state store must not grow beyond the documented grant (the genesis balance once per governance or audit administrator seen available for the first time, read back through GetAllRoles), no balance is negative, and for single-transfer blocks sender/receiver/fee/admin-split accounting is exact", 3000, 100000),
	"C20": {
		Engine: "ordersim", Level: "exploration",
		Quick:       tierCfg{Runs: 3200, BudgetS: 150, MinimiseS: 60},
		Thorough:    tierCfg{Runs: 400000, BudgetS: 2400, MinimiseS: 300},
		Rule:        "one case = a cluster of real ordering nodes (etcd-raft with 1, 3, 4 or 5 nodes, or solo) with a drawn order.toml (tick, election ticks, batch size and timeout, snapshot count, sync fetch size, timed blocks) inside one testing/synctest bubble; a driver, from a recorded choice tape, delivers/drops/duplicates/reorders messages of the simulated network, advances the fake clock, submits transactions (in order, stale, with gaps) to any node, runs the stub executors (execute, then ReportState possibly out of order), crashes and restarts nodes from a copy of their own storage (WAL, snapshots, applied-index db) at the executed height, isolates and heals nodes, then runs a fault-free tail; or the block syncer alone driven with (begin, end, fetch size) triples against failing peers; the delivery history is checked: heights handed to each incarnation are executed height +1, +2, ...; every height has identical content on all replicas; no transaction in two delivered blocks; executed chains are prefixes of the agreed chain; sync requests form an ascending partition and a failed range is retried unchanged; non-trivial = >=2 heights agreed (or >=2 sync requests); distinct = distinct event-log digests",
		Assumptions: []string{"crash = the process stops at an event boundary, every completed write survives (WAL and db directories are copied for the next incarnation)", "the executor is a stub (executed chain + durable height per node); bounded progress after the last fault is measured as a diagnostic only, C20 is a safety property", "goroutine interleaving between two quiescent points is left to the Go scheduler; messages emitted concurrently are sorted canonically before the tape assigns their fates"},
		Components: map[string]string{
			"pkg/order/etcdraft (node, storage), etcd raft/wal/snap, goleveldb applied-index db, pkg/order/mempool, tx cache, pkg/order/solo, pkg/order/syncer": "real",
			"network (OrderPeerManager)": "stub: SimNet (every delivery, loss, duplication, partition decided by the driver)",
			"clock":                      "fake (testing/synctest)",
			"ledger + executor":          "stub executor per node; feedhub wiring (Commit -> execute -> ReportState in a bare goroutine) re-implemented by the driver",
		},
	},
}

func chainProp(rule string, quick, thorough int) propCfg {
	return propCfg{
		Engine: "chainsim", Level: "exploration",
		Quick:       tierCfg{Runs: quick, BudgetS: 100, MinimiseS: 40},
		Thorough:    tierCfg{Runs: thorough, BudgetS: 1500, MinimiseS: 240},
		Rule:        rule + "; non-trivial = >=3 blocks and >=5 transactions executed; distinct = distinct event-log digests",
		Assumptions: []string{"the total order of blocks is given (trivial sequencer): these properties are about execution, ordering is C20's", "goroutine interleavings inside the executor and Go map iteration orders are sampled natively per replica (not PRNG-controlled); a divergence that depends on them is detected statistically and its replay is marked resampled", "SimKV stands in for leveldb; block files are real files on tmpfs"},
		Components: map[string]string{
			"internal/ledger, internal/executor, internal/executor/contracts/*, pkg/vm/boltvm, pkg/proof, bitxhub-core validators and manager contracts": "real",
			"pkg/vm/wasm + wasmtime (cgo)": "real (exercised only by XVM/rule steps)",
			"leveldb":                      "stub: sim.SimKV",
			"consensus / ordering":         "stub: trivial sequencer feeding identical CommitEvents",
			"internal/router (classification of a stored block and its metadata into per-chain delivery sets; C02, C05, C06)": "real",
			"p2p, gRPC/JSON-RPC admission, TSS, router's pier subscriptions":                                                  "not run",
		},
	}
}

const poolRule = "one case = a seeded sequence of pool operations and faults (submit single/multi, leader/follower, local/remote, in order, gaps, duplicates by hash, conflicting transactions of equal nonce, stale nonces; GenerateBlock; commit notifications in order, out of order, partial, duplicated, and of blocks containing transactions this pool never received; batch-sequence resets; fake-clock advances with rebroadcast and age-based removal; pool restart from ledger nonces; a concurrent pending-nonce query of the API side parked inside the ledger lookup for 1-3 driver steps whenever the pool does not hold its nonce-cache locks across that lookup) with per-run account count 1-4, batch size 1-8, pool size, timed mode, executed on the real mempool inside a testing/synctest bubble (fake clock) next to a reference model; non-trivial = at least one batch produced and one commit delivered; distinct = distinct event-log digests"

var poolAssumptions = []string{"admission is judged by the documented entry filter observed through GetPendingNonceByAccount/GetTransaction just before the call; for a transaction that was in the pool before and left it without being committed (superseded, evicted) admission is read off the pool after the call", "the ledger's committed nonce advances when a commit notification is delivered", "ordering between pools on different replicas is C20's business"}

var poolComponents = map[string]string{
	"pkg/order/mempool (mempoolImpl, transactionStore, btree indices, nonce cache)": "real",
	"clock":                                 "fake (testing/synctest bubble)",
	"ledger nonce source (GetAccountNonce)": "stub: model ledger",
	"consensus / network / executor":        "not run by this engine (see ordersim)",
}
