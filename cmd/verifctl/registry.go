package main

var ledgerComponents = map[string]string{
	"internal/ledger (SimpleLedger, SimpleAccount, AccountCache, journal, ChainLedgerImpl)": "real",
	"bitxhub-kit blockfile": "real files on tmpfs scratch",
	"leveldb state/chain stores": "stub: sim.SimKV (ordered in-memory KV recording every atomic durable write)",
	"executor / contracts / consensus": "not run by this engine",
}

var registry = map[string]propCfg{
	"C13": {
		Engine: "ledgersim", Level: "exploration",
		Quick:    tierCfg{Runs: 6000, BudgetS: 60, MinimiseS: 20},
		Thorough: tierCfg{Runs: 400000, BudgetS: 900, MinimiseS: 120},
		Rule: "one case = one seeded op sequence (set/add/del/get/balance/nonce/code/query/snapshot/revert/txend/commit/reopen, per-run op weights and LRU sizes 1,2,3,8 or shipped) executed on the real SimpleLedger over SimKV and on a map+undo-log reference model, every read compared; non-trivial = contains at least one commit and >=5 executed steps; distinct = distinct event-log digests",
		Assumptions: []string{"SimKV mimics goleveldb's observable semantics (value copies, empty value reads back non-nil, ordered iteration)", "flush and commit are issued back to back as the block executor does", "AddState on an account object created after a still-open snapshot is not generated (its fate on revert is unspecified)"},
		Components: ledgerComponents,
	},
}
