package main

import (
	"fmt"
	"go/ast"
	"go/parser"
	"go/token"
	"os"
	"path/filepath"
	"sort"
)

// Yield points. Between two statements of the executor's flush/commit path there is no I/O and no
// lock, so no seam of the repository lets the simulator place a concurrent API reader there. The
// build step therefore derives, from /repo's current file (never from a stored copy), a variant in
// which every top-level statement of the listed functions is preceded by
//
//	verifYield("<func>", <index>, <receiver>);
//
// on the same source line (line numbers of the code under test stay what they are). verifYield is
// defined in the overlay accessor file of the package and does nothing unless the engine installs
// VerifYieldHook. Statements executed while the function holds a lock it took itself are left alone
// (a real reader could not run there either, and an in-line reader would dead-lock).
var yieldTargets = []struct {
	rel   string
	funcs []string
}{
	{"internal/ledger/state_accessor.go", []string{"FlushDirtyData", "Commit", "RollbackState"}},
	{"internal/executor/handle.go", []string{"processExecuteEvent"}},
	{"internal/executor/serial_executor.go", []string{"ApplyTransactions"}},
}

// readerIgnores: mutexes that the API reader's queries (account, nonce, code, storage) never take, so that a function
// holding one of them for its whole body still gets yield points (journalMutex guards the journal window only).
var readerIgnores = map[string]bool{"journalMutex": true}

func lockCall(st ast.Stmt) (acquire, release, deferred bool) {
	var call *ast.CallExpr
	switch s := st.(type) {
	case *ast.ExprStmt:
		call, _ = s.X.(*ast.CallExpr)
	case *ast.DeferStmt:
		call, deferred = s.Call, true
	}
	if call == nil {
		return
	}
	sel, ok := call.Fun.(*ast.SelectorExpr)
	if !ok {
		return
	}
	if inner, ok := sel.X.(*ast.SelectorExpr); ok && readerIgnores[inner.Sel.Name] {
		return // a mutex none of the reader's queries takes
	}
	switch sel.Sel.Name {
	case "Lock", "RLock":
		acquire = true
	case "Unlock", "RUnlock":
		release = true
	}
	return
}

// addYields writes the instrumented variants below scratch and adds them to the overlay map.
func addYields(scratch string, repl map[string]string) int {
	total := 0
	for _, t := range yieldTargets {
		srcPath := filepath.Join(repoRoot, t.rel)
		src, err := os.ReadFile(srcPath)
		if err != nil {
			continue // the file is gone on this tree: no yield points, the checks still run
		}
		fset := token.NewFileSet()
		f, err := parser.ParseFile(fset, srcPath, src, parser.ParseComments)
		if err != nil {
			continue // the build will report it
		}
		want := map[string]bool{}
		for _, n := range t.funcs {
			want[n] = true
		}
		type ins struct {
			off  int
			text string
		}
		var all []ins
		for _, d := range f.Decls {
			fd, ok := d.(*ast.FuncDecl)
			if !ok || fd.Body == nil || !want[fd.Name.Name] || fd.Recv == nil || len(fd.Recv.List) != 1 || len(fd.Recv.List[0].Names) != 1 {
				continue
			}
			recv := fd.Recv.List[0].Names[0].Name
			if recv == "_" {
				continue
			}
			var walk func(list []ast.Stmt, base int, held bool, depth int)
			walk = func(list []ast.Stmt, base int, held bool, depth int) {
				for i, st := range list {
					acq, rel, deferred := lockCall(st)
					if rel && deferred {
						continue // "defer x.Unlock()": the lock stays held to the end
					}
					if !held {
						if _, isLabel := st.(*ast.LabeledStmt); !isLabel {
							all = append(all, ins{fset.Position(st.Pos()).Offset, fmt.Sprintf("verifYield(%q, %d, %s); ", fd.Name.Name, base+i, recv)})
						}
						if depth == 0 {
							// one level down: between the iterations' statements of a top-level loop (between two transactions
							// of a block); statement j of the loop that is statement i is numbered 1000*(i+1)+j
							switch l := st.(type) {
							case *ast.ForStmt:
								walk(l.Body.List, 1000*(base+i+1), held, 1)
							case *ast.RangeStmt:
								walk(l.Body.List, 1000*(base+i+1), held, 1)
							}
						}
					}
					if acq {
						held = true
					}
					if rel {
						held = false
					}
				}
			}
			walk(fd.Body.List, 0, false, 0)
		}
		if len(all) == 0 {
			continue
		}
		sort.Slice(all, func(i, j int) bool { return all[i].off > all[j].off })
		out := append([]byte(nil), src...)
		for _, in := range all {
			out = append(out[:in.off], append([]byte(in.text), out[in.off:]...)...)
		}
		dst := filepath.Join(scratch, "yield", t.rel)
		if err := os.MkdirAll(filepath.Dir(dst), 0755); err != nil {
			die2("yield overlay: %v", err)
		}
		if err := os.WriteFile(dst, out, 0644); err != nil {
			die2("yield overlay: %v", err)
		}
		repl[srcPath] = dst
		total += len(all)
	}
	return total
}
